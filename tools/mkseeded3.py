"""Stores the third round of seeded changes (sub-agent outputs in /tmp/wt6/out/Cxx) as
/verif/seeded/Cxx-e (their patch_a) and /verif/seeded/Cxx-f (their patch_b)."""
import glob
import json
import os
import shutil

OUT = '/tmp/wt6/out'
RES = '/tmp/wt6/res2'
DST = '/verif/seeded'
FIRST = {'C01-a': False, 'C01-b': False, 'C02-a': True, 'C02-b': True, 'C03-a': True, 'C03-b': False, 'C04-a': False, 'C04-b': True, 'C05-a': False, 'C05-b': True, 'C06-a': False, 'C06-b': False, 'C07-a': False, 'C07-b': True, 'C08-a': False, 'C08-b': True, 'C09-a': True, 'C09-b': True, 'C10-a': True, 'C10-b': True, 'C11-a': False, 'C11-b': True, 'C12-a': False, 'C12-b': False, 'C13-a': True, 'C13-b': True, 'C14-a': False, 'C14-b': True, 'C15-a': False, 'C15-b': False, 'C16-a': False, 'C16-b': True, 'C17-a': False, 'C17-b': False, 'C18-a': True, 'C18-b': False, 'C19-a': False, 'C19-b': False, 'C20-a': True, 'C20-b': True}
ADDED = {'C01-a': 'grouping-column values of other types (int, date, null) in DocConfig (dimension keytype)', 'C01-b': 'page_by / subline_by / group_by spelled as tuple or bare string (dimension seq)', 'C03-b': 'table-style footnote and source with every pair of placements on tables that just fit one page', 'C04-a': 'null as a key value (divider mode "nullkey", where the page_by column is displayed as cells)', 'C05-a': 'two-column subline_by whose values differ while their plain concatenation is equal (mode "collide")', 'C06-a': 'column-header rows handed over as a tuple, each with widths of its own (dimension hdrtuple)', 'C06-b': 'zero-row tables in the C06 generators (the single page is first and last)', 'C07-a': 'border pattern of three entries per ROW recycled down the table (shape "rowpat", a tuple)', 'C08-a': 'multi-section documents whose sections have equal column names, non-uniform widths and hide different page_by columns (mode "rot")', 'C11-a': 'every table command in another letter case (capitalised / upper / swapped) as an unknown command', 'C12-a': 'coloured column header without text of its own (labels from the column names; dimension hauto)', 'C12-b': 'RTFPage(use_color=True/False) as a dimension', 'C14-a': 'pool documents pgshare / pgfail on one caller-owned RTFPage, pgfail failing in its second section', 'C15-a': 'nested two-preemption schedules for every pair of distinct call sites of two threads', 'C15-b': 'a paginated document as the second thread (pairs colB/paged, plain/pagedhdr)', 'C16-a': 'image paths reused: an earlier document embedded other bytes from the same path, file rewritten with the time stamp kept (dimension reuse)', 'C17-a': 'the output path is also the first input (env.alias)', 'C17-b': 'an earlier call on the same paths while the first input held other bytes of the same length and time stamp (env.rerun)', 'C18-b': 'the export under test is the second one of the document object, after an in-place edit of two components (dimension prior)', 'C19-a': 'a figure file that existed, was accepted by an earlier construction, and has been deleted since', 'C19-b': 'two legal keywords run together as an invalid value (not for format letters, which combine freely)'}
for pid in sorted(os.listdir(OUT)):
    src = os.path.join(OUT, pid)
    if not os.path.isdir(src):
        continue
    for k, new in (('a', 'e'), ('b', 'f')):
        if not os.path.exists(os.path.join(src, 'patch_%s.diff' % k)):
            print('missing', pid, k)
            continue
        key = '%s-%s' % (pid, k)
        d = os.path.join(DST, '%s-%s' % (pid, new))
        os.makedirs(d, exist_ok=True)
        shutil.copy(os.path.join(src, 'patch_%s.diff' % k), os.path.join(d, 'patch.diff'))
        shutil.copy(os.path.join(src, 'demo_%s.py' % k), os.path.join(d, 'demo.py'))
        notes = open(os.path.join(src, 'notes_%s.md' % k)).read()
        ev = ''
        p = os.path.join(RES, '%s_%s.txt' % (pid, k))
        if os.path.exists(p):
            ev = open(p).read().strip()
        caught = [c for c in ('C%02d' % i for i in range(1, 21)) if ('[%s rc=1' % c) in ev]
        meta = {"property": pid, "round": 3,
                "origin": "written by an independent sub-agent that saw only the property text and its own worktree of /repo",
                "what_it_needs": notes.strip()[:1800],
                "confirmed": "scratch worktree /tmp/wt6/%s at /repo HEAD: full test suite passes with the patch; demo.py exits 1 with the patch and 0 without" % pid,
                "detected_by": caught,
                "caught_at_first_evaluation": FIRST.get(key),
                "added_to_catch_it": ADDED.get(key, ""),
                "evaluation_log": [ev[-700:]]}
        json.dump(meta, open(os.path.join(d, 'meta.json'), 'w'), indent=1)
print(len(glob.glob(os.path.join(DST, '*'))), 'seeded directories')
