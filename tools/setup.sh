#!/bin/sh
# Offline setup: parse every TLA+ module, byte-compile the harness. Nothing is fetched.
set -e
cd "$(dirname "$0")/.."
for m in spec/*.tla; do
  b=$(basename "$m" .tla)
  (cd spec && java -cp /opt/veriftools/tla/tla2tools.jar:/opt/veriftools/tla/CommunityModules-deps.jar tla2sany.SANY "$b.tla" > /tmp/sany-$b.log 2>&1) || { cat /tmp/sany-$b.log; exit 1; }
  if grep -q "Semantic errors\|Parse Error\|Fatal errors" /tmp/sany-$b.log; then cat /tmp/sany-$b.log; exit 1; fi
  rm -f /tmp/sany-$b.log
done
/venv/bin/python -m compileall -q harness
mkdir -p evidence/replay
echo setup-ok
