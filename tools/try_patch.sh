#!/bin/sh
# usage: tools/try_patch.sh <patch.diff> <tier> <Cxx> [<Cyy> ...]
# Applies a seeded change to /repo, runs the given checks, restores /repo. Prints one line per check.
set -u
PATCH="$1"; TIER="$2"; shift 2
cd /repo || exit 2
if ! git diff --quiet; then echo "repo working tree not clean"; exit 2; fi
git apply "$PATCH" || { echo "patch does not apply"; exit 2; }
cd /verif
for id in "$@"; do
  out=$(timeout 3000 ./check "$id" --tier "$TIER" 2>&1)
  rc=$?
  nv=$(printf '%s\n' "$out" | grep -c '^VIOLATION')
  first=$(printf '%s\n' "$out" | grep -A1 '^VIOLATION' | sed -n 2p | cut -c1-220)
  echo "$id rc=$rc violations_printed=$nv $first"
done
git -C /repo checkout -- .
