#!/bin/sh
# usage: tools/eval_seeded.sh <seeded id, e.g. C05-c> <scratch worktree of /repo> [<verif dir>]
# Confirms a stored seeded change in a scratch worktree (tests pass, demo fails with / passes without the change)
# and runs the quick tier of the checks listed in its meta.json against it (RTFLITE_SRC, no evidence written).
ID="$1"; WT="$2"; V="${3:-/verif}"
S=/verif/seeded/$ID
cd "$WT" || exit 2
git checkout -q -- . ; git clean -fdq
git checkout -q --detach "$(git -C /repo rev-parse HEAD)"
git apply "$S/patch.diff" || { echo "$ID: patch does not apply"; exit 2; }
T=$(PYTHONPATH=$WT/src /venv/bin/python -m pytest -q -p no:cacheprovider -x 2>&1 | tail -1)
PYTHONPATH=$WT/src /venv/bin/python "$S/demo.py" >/dev/null 2>&1; D1=$?
CHECKS=$(/venv/bin/python -c "import json;print(' '.join(json.load(open('$S/meta.json'))['detected_by']))")
RES=""
for c in $CHECKS; do
  o=$(cd "$V" && RTFLITE_SRC=$WT/src VERIF_NOEVIDENCE=1 timeout 3000 ./check "$c" --tier quick 2>&1); rc=$?
  first=$(printf '%s\n' "$o" | grep -A1 '^VIOLATION' | sed -n 2p | cut -c1-140)
  RES="$RES [$c rc=$rc $first]"
done
git checkout -q -- . ; git clean -fdq
PYTHONPATH=$WT/src /venv/bin/python "$S/demo.py" >/dev/null 2>&1; D0=$?
echo "$ID tests='$T' demo_mutant=$D1 demo_clean=$D0 $RES"
