"""Stores the sixth round of seeded changes (sub-agent outputs in /tmp/wt11/out/Cxx) as /verif/seeded/Cxx-k (their patch_a)
and /verif/seeded/Cxx-l (their patch_b); evaluation logs in /tmp/wt11/res (first evaluation <id>_<k>.txt, later ones
<id>_<k>2.txt ... and <id>_<k>_C15*.txt for the changes that are thread interleavings)."""
import glob
import json
import os
import shutil

OUT = '/tmp/wt11/out'
RES = '/tmp/wt11/res'
DST = '/verif/seeded'
ADDED = {
 'C01-a': 'strategies gbpb / gbsub: group_by with contiguous keys next to a page_by / subline_by key that comes back',
 'C02-a': 'mode padkey: key values with surrounding blanks where the page_by column is displayed as cells',
 'C03-a': 'variant tcv: text_convert as a per-row matrix (row 1 on, others off) with underscore-heavy wrapping texts',
 'C03-b': 'exhaustive small family: subline_by / subline_by + page_by sections, pageby_header=False, one and two header rows',
 'C06-b': 'variant last_row: RTFBody(last_row=False)',
 'C08-a': 'nothing - a thread interleaving (strategy instance shared by the registry), caught by C15 (gated colour schedules)',
 'C08-b': 'paper widecol: col_width wider than the text area',
 'C10-a': 'representatives for the characters RTF also has a control symbol / word for (U+00AD, U+2011, en/em space and dash, quotes, bullet); the reader now decodes those control symbols to their characters',
 'C11-a': 'templates with a composable character directly before the command (x K, = K =), piece x = "e"',
 'C12-a': 'C15: three-switch schedules (A parked, B parked, A steps out of the interrupted function, B finishes, A finishes) over every colour-service call instance of both threads',
 'C15-a': 'pool documents fnA / fnB on one caller-owned RTFFootnote and RTFSource',
 'C15-b': 'fresh-process family for two figure documents embedding the same image (fig, fig)',
 'C17-b': 'env.samepath: the last argument is the very path of the first',
 'C18-a': 'the nearest existing ancestor of a missing target directory is an empty directory of the caller\'s and is part of the before/after snapshot',
 'C20-a': 'class kern (kerning pairs as units), simulated texts end in a separate Stop step (they had mostly been 1-2 characters long)',
}
n = 0
for pid in sorted(os.listdir(OUT)):
    src = os.path.join(OUT, pid)
    if not os.path.isdir(src):
        continue
    for k, new in (('a', 'k'), ('b', 'l')):
        key = '%s-%s' % (pid, k)
        d = os.path.join(DST, '%s-%s' % (pid, new))
        os.makedirs(d, exist_ok=True)
        shutil.copy(os.path.join(src, 'patch_%s.diff' % k), os.path.join(d, 'patch.diff'))
        shutil.copy(os.path.join(src, 'demo_%s.py' % k), os.path.join(d, 'demo.py'))
        notes = open(os.path.join(src, 'notes_%s.md' % k)).read()
        logs = sorted(glob.glob(os.path.join(RES, '%s_%s*.txt' % (pid, k))), key=os.path.getmtime)
        texts = [open(f).read().strip() for f in logs]
        first = texts[0] if texts else ''
        caught = sorted({c for t in texts for c in ('C%02d' % i for i in range(1, 21)) if ('[%s rc=1' % c) in t})
        last = next((t for t in reversed(texts) if 'rc=1' in t), texts[-1] if texts else '')
        meta = {"property": pid, "round": 6,
                "origin": "written by an independent sub-agent that saw only the property text, one-line descriptions of the earlier changes for that property, and its own worktree of /repo",
                "what_it_needs": notes.strip()[:1800],
                "confirmed": "scratch worktree /tmp/wt11/%s at /repo HEAD: full test suite passes with the patch; demo.py exits 1 with the patch and 0 without" % pid,
                "detected_by": caught,
                "caught_at_first_evaluation": ('[%s rc=1' % pid) in first,
                "added_to_catch_it": ADDED.get(key, ""),
                "first_evaluation_log": [first[-500:]],
                "evaluation_log": [last[-700:]]}
        json.dump(meta, open(os.path.join(d, 'meta.json'), 'w'), indent=1)
        n += 1
        print(key, '->', new, 'caught by', caught, 'first' if meta["caught_at_first_evaluation"] else '')
print(n, 'stored;', len(glob.glob(os.path.join(DST, '*'))), 'seeded directories')
