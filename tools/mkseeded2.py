"""Stores the second round of seeded changes (sub-agent outputs in /tmp/wt2/out/Cxx) as
/verif/seeded/Cxx-c (their patch_a) and /verif/seeded/Cxx-d (their patch_b)."""
import glob
import json
import os
import shutil

OUT = '/tmp/wt2/out'
RES = '/tmp/wt2/res2'
DST = '/verif/seeded'
FIRST = {  # outcome of the FIRST evaluation (before any generator was extended): True = caught at once
    'C01-a': False, 'C01-b': False, 'C02-a': False, 'C02-b': True, 'C03-a': True, 'C03-b': False, 'C04-a': False, 'C04-b': False,
    'C05-a': True, 'C05-b': False, 'C06-a': False, 'C06-b': True, 'C07-a': True, 'C07-b': True, 'C08-a': True, 'C08-b': False,
    'C09-a': True, 'C09-b': True, 'C10-a': False, 'C10-b': False, 'C11-a': False, 'C11-b': False, 'C12-a': True, 'C12-b': True,
    'C13-a': True, 'C13-b': False, 'C14-a': False, 'C14-b': False, 'C15-a': True, 'C15-b': False, 'C16-a': False, 'C16-b': True,
    'C17-a': True, 'C17-b': False, 'C18-a': False, 'C18-b': False, 'C19-a': False, 'C19-b': False, 'C20-a': True, 'C20-b': True,
}
ADDED = {
    'C01-a': 'attribute patterns narrower/shorter than the table whose size does not divide it (shape "recycle" in DocConfig)',
    'C01-b': 'cell kind "astral" (emoji, mathematical alphanumerics, CJK extension B, plane 16) in DocConfig',
    'C02-a': 'divider modes in the C02 generators (a divider group starting inside a page)',
    'C03-b': 'divider mode "resume" (X, -----, X): the value after the divider group has the text shown before it',
    'C04-a': 'dimension "dup": equal texts in columns of different width (second column four times as wide repeats the next row\'s text)',
    'C04-b': 'naming mode "cycle": a group key that comes back after another one (A, B, A), for page_by and subline_by',
    'C05-b': 'column order "rev": the frame stores the group columns in the reverse of the page_by order',
    'C06-a': 'paper "letterm" (letter size, other margins) in C06, and pool documents pagedm1/pagedm2 in C14',
    'C08-b': 'sections sharing one RTFBody / RTFBody(col_rel_width=[1]) object in the multi-section family; pool documents sharew2/sharew3 in C14',
    'C10-a': 'long texts (31..257 characters, mostly non-ASCII) in every position',
    'C10-b': 'position "pageby2" (heading of a group that starts further down the page) and Unicode white space in the strings',
    'C11-a': 'alphabet symbol H = "{\\in}" (a brace group holding a supported command)',
    'C11-b': 'five-column frames with a removed grouping column and text_convert as a column pattern narrower than the frame',
    'C13-b': 'non-contiguous key orders combined with page_by / subline_by, also contiguous inside each page group only',
    'C14-a': 'pool documents share1 (1x1 table on the shared body) and cyc (border matrix with the shape of a page)',
    'C14-b': 'pool documents brdA / brdB (the same coloured border at different colour-table positions)',
    'C15-b': 'thread pairs of single tables with different column counts (plain/colB)',
    'C16-a': 'arbitrary bytes in JPEG segment payloads (0xFF at the end of a segment, byte sequences that look like a frame header)',
    'C17-b': 'inputs whose body ends with a paragraph group (tail = "para": a source line below the table / figure)',
    'C18-a': 'the real LibreOfficeConverter against a fake soffice program (converter kinds "real"/"onpath", behaviour "silent")',
    'C18-b': 'converter outcome "ret_missing" (a well-typed Path to a file that was never created)',
    'C19-a': 'shape "ragged" (first row shorter than the later ones, bad value in the overhang)',
    'C19-b': 'new_page=True combined with subline_by / group_by instead of page_by',
}
for pid in sorted(os.listdir(OUT)):
    src = os.path.join(OUT, pid)
    if not os.path.isdir(src):
        continue
    for k, new in (('a', 'c'), ('b', 'd')):
        if not os.path.exists(os.path.join(src, 'patch_%s.diff' % k)):
            print('missing', pid, k)
            continue
        key = '%s-%s' % (pid, k)
        d = os.path.join(DST, '%s-%s' % (pid, new))
        os.makedirs(d, exist_ok=True)
        shutil.copy(os.path.join(src, 'patch_%s.diff' % k), os.path.join(d, 'patch.diff'))
        shutil.copy(os.path.join(src, 'demo_%s.py' % k), os.path.join(d, 'demo.py'))
        notes = open(os.path.join(src, 'notes_%s.md' % k)).read()
        ev = ''
        p = os.path.join(RES, '%s_%s.txt' % (pid, k))
        if os.path.exists(p):
            ev = open(p).read().strip()
        caught = [c for c in ('C%02d' % i for i in range(1, 21)) if ('[%s rc=1' % c) in ev]
        meta = {"property": pid, "round": 2,
                "origin": "written by an independent sub-agent that saw only the property text and its own worktree of /repo",
                "what_it_needs": notes.strip()[:1800],
                "confirmed": "scratch worktree /tmp/wt2/%s at /repo HEAD: full test suite passes with the patch; demo.py exits 1 with the patch and 0 without" % pid,
                "detected_by": caught,
                "caught_at_first_evaluation": FIRST.get(key),
                "added_to_catch_it": ADDED.get(key, ""),
                "evaluation_log": [ev[-700:]]}
        json.dump(meta, open(os.path.join(d, 'meta.json'), 'w'), indent=1)
print(len(glob.glob(os.path.join(DST, '*'))), 'seeded directories')
