"""Stores the fifth round of seeded changes (sub-agent outputs in /tmp/wt10/out/Cxx) as /verif/seeded/Cxx-i (their patch_a)
and /verif/seeded/Cxx-j (their patch_b); first-evaluation results in /tmp/wt10/res, final ones in /tmp/wt10/res2."""
import glob
import json
import os
import shutil

OUT = '/tmp/wt10/out'
RES1 = '/tmp/wt10/res'
RES = '/tmp/wt10/res2'
DST = '/verif/seeded'
ADDED = {
 'C01-a': 'dimension vocab: every legal keyword of the enumerated cell options (vertical alignment incl. merge codes, all border styles, justification) cycled over body, header and table footnote / source cells',
 'C02-a': 'shadow: the process encoded the same frame with the opposite text_convert setting just before',
 'C02-b': 'nothing - a thread interleaving, caught by C15 (single preemption at every call site)',
 'C03-a': 'a group_by column whose label needs 2-3 lines (variant gby of the C03 family)',
 'C03-b': 'row heights produced by a numeric column (Int64 / Float64 digits wrapping in a narrow column; variant numh)',
 'C06-b': 'page header / footer with two or three lines and per-line paragraph settings (pghf bits 4 and 8)',
 'C08-a': 'col_rel_width written for the displayed columns only (width patterns ascdisp / mixeddisp)',
 'C08-b': 'the document is constructed on a page of another table width and given the scenario\'s page afterwards (variant repage)',
 'C10-a': 'homogeneous texts (every character satisfies one of Python\'s string predicates) as the WHOLE text of a position (no markers)',
 'C10-b': 'nothing - first use in a fresh process under two threads, caught by C15 (fresh-process family)',
 'C11-b': 'twin cells: the same text in two cells of one row, conversion on in one and off in the other, both orders',
 'C12-b': 'dimension long: 34 rows per section on pages of three rows (17+ pages)',
 'C13-a': 'dimension gorder: the frame stores the group_by columns in the reverse of the listed order',
 'C13-b': 'dimension spell: level-dependent digit strings whose plain concatenation collides for different key tuples',
 'C15-a': 'thread pairs built on ONE caller-owned RTFPage / RTFSubline / RTFBody (pgmulti/pgshare, subA/subB, share2/share3)',
 'C15-b': 'saturated-process family: 200 distinct LaTeX strings converted before the schedule, preemption at every call site of an encode made in that state',
 'C16-a': 'image dimensions up to 2^31-1 with the boundaries of the 16-bit range',
 'C17-b': 'env.prior: the process\' previous assemble call failed after reading the same inputs / succeeded on another list',
 'C18-a': 'target "tilde" (home-relative path with missing directories), the working directory watched for debris, clause C18_Completes',
 'C20-a': 'mode homog: homogeneous texts (all digits / capitals / blanks / one repeated character) closed by one other character; five more character classes',
}
n = 0
for pid in sorted(os.listdir(OUT)):
    src = os.path.join(OUT, pid)
    if not os.path.isdir(src):
        continue
    for k, new in (('a', 'i'), ('b', 'j')):
        key = '%s-%s' % (pid, k)
        d = os.path.join(DST, '%s-%s' % (pid, new))
        os.makedirs(d, exist_ok=True)
        shutil.copy(os.path.join(src, 'patch_%s.diff' % k), os.path.join(d, 'patch.diff'))
        shutil.copy(os.path.join(src, 'demo_%s.py' % k), os.path.join(d, 'demo.py'))
        notes = open(os.path.join(src, 'notes_%s.md' % k)).read()
        first = open(os.path.join(RES1, '%s_%s.txt' % (pid, k))).read().strip() if os.path.exists(os.path.join(RES1, '%s_%s.txt' % (pid, k))) else ''
        ev = open(os.path.join(RES, '%s_%s.txt' % (pid, k))).read().strip() if os.path.exists(os.path.join(RES, '%s_%s.txt' % (pid, k))) else ''
        caught = [c for c in ('C%02d' % i for i in range(1, 21)) if ('[%s rc=1' % c) in ev]
        meta = {"property": pid, "round": 5,
                "origin": "written by an independent sub-agent that saw only the property text, one-line descriptions of the earlier changes for that property, and its own worktree of /repo",
                "what_it_needs": notes.strip()[:1800],
                "confirmed": "scratch worktree /tmp/wt10/%s at /repo HEAD: full test suite passes with the patch; demo.py exits 1 with the patch and 0 without" % pid,
                "detected_by": caught,
                "caught_at_first_evaluation": ('[%s rc=1' % pid) in first,
                "added_to_catch_it": ADDED.get(key, ""),
                "first_evaluation_log": [first[-500:]],
                "evaluation_log": [ev[-700:]]}
        json.dump(meta, open(os.path.join(d, 'meta.json'), 'w'), indent=1)
        n += 1
        print(key, '->', new, 'caught by', caught, 'first' if meta["caught_at_first_evaluation"] else '')
print(n, 'stored;', len(glob.glob(os.path.join(DST, '*'))), 'seeded directories')
