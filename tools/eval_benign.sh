#!/bin/sh
# usage: tools/eval_benign.sh <dir with patch_<k>.diff/demo_<k>.py> <k> <scratch worktree of /repo> <verif dir> [<check ids>]
# A property-PRESERVING change: the tests pass, its demonstration passes with and without it, and NO check may report
# a violation.  Prints one line; the last field lists the checks that did not exit 0.
SRC="$1"; K="$2"; WT="$3"; V="${4:-/verif}"; shift 4 2>/dev/null
CHECKS="${*:-C01 C02 C03 C04 C05 C06 C07 C08 C09 C10 C11 C12 C13 C14 C15 C16 C17 C18 C19 C20}"
cd "$WT" || exit 2
git checkout -q -- . ; git clean -fdq
git checkout -q --detach "$(git -C /repo rev-parse HEAD)"
git apply "$SRC/patch_$K.diff" || { echo "$SRC/$K: patch does not apply"; exit 2; }
T=$(PYTHONPATH=$WT/src /venv/bin/python -m pytest -q -p no:cacheprovider -x 2>&1 | tail -1)
PYTHONPATH=$WT/src /venv/bin/python "$SRC/demo_$K.py" >/dev/null 2>&1; D1=$?
BAD=""
for c in $CHECKS; do
  o=$(cd "$V" && RTFLITE_SRC=$WT/src VERIF_NOEVIDENCE=1 timeout 3000 ./check "$c" --tier quick 2>&1); rc=$?
  if [ $rc -ne 0 ]; then
    first=$(printf '%s\n' "$o" | grep -E -A1 '^VIOLATION|^MACHINERY' | head -2 | tr '\n' ' ' | cut -c1-260)
    BAD="$BAD [$c rc=$rc $first]"
  fi
done
git checkout -q -- . ; git clean -fdq
PYTHONPATH=$WT/src /venv/bin/python "$SRC/demo_$K.py" >/dev/null 2>&1; D0=$?
echo "$(basename $SRC)/$K tests='$T' demo_changed=$D1 demo_clean=$D0 alarms:${BAD:- none}"
