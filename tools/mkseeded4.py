"""Stores the fourth (focused) round of seeded changes (sub-agent outputs in /tmp/wt6/out/Cxx) as
/verif/seeded/Cxx-g (their patch_a) and /verif/seeded/Cxx-h (their patch_b)."""
import glob
import json
import os
import shutil

OUT = '/tmp/wt9/out'
RES = '/tmp/wt9/res2'
DST = '/verif/seeded'
FIRST = {'C01-a': False, 'C01-b': False, 'C02-a': False, 'C02-b': False, 'C03-a': False, 'C03-b': False, 'C04-a': False, 'C04-b': False, 'C05-a': False, 'C05-b': False, 'C06-a': False, 'C06-b': True, 'C07-a': False, 'C07-b': False, 'C08-a': False, 'C08-b': False, 'C09-a': False, 'C09-b': False, 'C10-a': False, 'C10-b': False, 'C11-a': False, 'C11-b': False, 'C12-a': True, 'C12-b': False, 'C13-a': False, 'C13-b': False, 'C14-a': False, 'C14-b': False, 'C15-a': False, 'C15-b': False, 'C16-a': False, 'C16-b': False, 'C17-a': False, 'C17-b': False, 'C18-a': False, 'C18-b': False, 'C19-a': False, 'C19-b': True, 'C20-a': False, 'C20-b': False}
ADDED = {'C01-a': 'the body object (one-value width shorthand) served a narrower table before (dimension prior)', 'C01-b': 'header mode multi2: a spanning top row with two cells and a width list of its own', 'C06-a': 'paper a4landp: landscape flag with the paper given short edge first; exhaustive family over every paper spelling', 'C12-b': 'dimension reenc: encode, replace the colour-bearing components, encode again', 'C14-a': 'pool documents subA / subB on one caller-owned RTFSubline', 'C14-b': 'pool document sublpb (subline_by + page_by, new_page default), encoded twice in a history', 'C15-a': 'fresh-process runs (forked child of an import-only parent) with thread A preempted at every call instance; documents with LaTeX commands from both ends of the table; call listing in a fresh interpreter', 'C15-b': 'preemption points named by call site and occurrence instead of a global call index (the index differed between cold and warm processes); group_by documents grpA / grpB', 'C17-a': 'env.twin: the last input is a byte copy of the first', 'C17-b': 'env.stale: a longer file already sits at the output path', 'C18-a': 'converter outcome ok_empty: a well-typed path to an empty file is a success', 'C18-b': 'HTML targets named report.htm / report (dimension tname)', 'C19-a': 'multi-section documents whose by-variable names a column of the other section'}
for pid in sorted(os.listdir(OUT)):
    src = os.path.join(OUT, pid)
    if not os.path.isdir(src):
        continue
    for k, new in (('a', 'g'), ('b', 'h')):
        if not os.path.exists(os.path.join(src, 'patch_%s.diff' % k)):
            print('missing', pid, k)
            continue
        key = '%s-%s' % (pid, k)
        d = os.path.join(DST, '%s-%s' % (pid, new))
        os.makedirs(d, exist_ok=True)
        shutil.copy(os.path.join(src, 'patch_%s.diff' % k), os.path.join(d, 'patch.diff'))
        shutil.copy(os.path.join(src, 'demo_%s.py' % k), os.path.join(d, 'demo.py'))
        notes = open(os.path.join(src, 'notes_%s.md' % k)).read()
        ev = ''
        p = os.path.join(RES, '%s_%s.txt' % (pid, k))
        if os.path.exists(p):
            ev = open(p).read().strip()
        caught = [c for c in ('C%02d' % i for i in range(1, 21)) if ('[%s rc=1' % c) in ev]
        meta = {"property": pid, "round": 4,
                "origin": "written by an independent sub-agent that saw only the property text and its own worktree of /repo",
                "what_it_needs": notes.strip()[:1800],
                "confirmed": "scratch worktree /tmp/wt9/%s at /repo HEAD: full test suite passes with the patch; demo.py exits 1 with the patch and 0 without" % pid,
                "detected_by": caught,
                "caught_at_first_evaluation": FIRST.get(key),
                "added_to_catch_it": ADDED.get(key, ""),
                "evaluation_log": [ev[-700:]]}
        json.dump(meta, open(os.path.join(d, 'meta.json'), 'w'), indent=1)
print(len(glob.glob(os.path.join(DST, '*'))), 'seeded directories')
