import json, os, re, shutil, glob
OUT='/tmp/wt/out'; DST='/verif/seeded'
DET={ # mutant -> (checks that catch it, note)
 'C01-a':(['C01'],''), 'C01-b':(['C01','C13'],'caught by C13 at once; by C01 after hierarchical group_by with nulls was added to the DocConfig concretiser'),
 'C02-a':(['C02'],''), 'C02-b':(['C02'],''),
 'C03-a':(['C03'],''), 'C03-b':(['C03'],''),
 'C04-a':(['C03','C04'],'a capacity violation: caught by C03 at once; C04 now also judges the row budget (modulo the recorded C03 findings) as its always-when-required clause'),
 'C04-b':(['C04'],''),
 'C05-a':(['C05'],''), 'C05-b':(['C04','C05'],'missed at first (no divider groups in the C04 generators, C05 only checked that no data row is lost); caught after DivSet was added to C04 and the early-break clause to C05'),
 'C06-a':(['C06'],''), 'C06-b':(['C06'],''),
 'C07-a':(['C07'],''), 'C07-b':(['C14'],'does not violate a C07 clause in a single encode with non-empty border styles (the leaked border lands on an interior footnote row, or needs an empty page border style); it is a purity defect and is caught by C14 after the pool document pagedfn was added'),
 'C08-a':(['C08'],''), 'C08-b':(['C08'],'missed at first (removed columns were always adjacent); caught after the "split" column order was added'),
 'C09-a':(['C09'],'missed at first (page_by spanning rows were only rendered on one page); caught after paged pbspan/pb2span strategies were added'),
 'C09-b':(['C09'],'missed at first (only one removed column); caught after two removed columns (pb2span, subpb; adjacent or apart) were added'),
 'C10-a':(['C10'],''), 'C10-b':(['C10'],''),
 'C11-a':(['C11'],'missed at first (no empty brace group in the alphabet); caught after symbol E = "{}" was added'), 'C11-b':(['C11'],''),
 'C12-a':(['C12'],''), 'C12-b':(['C12'],''),
 'C13-a':(['C13'],''), 'C13-b':(['C13'],''),
 'C14-a':(['C14'],''), 'C14-b':(['C14'],'missed at first (no pool document with the default header and pagination); caught after pagedhdr was added'),
 'C15-a':(['C15'],''), 'C15-b':(['C15'],''),
 'C16-a':(['C16'],''), 'C16-b':(['C16'],''),
 'C17-a':(['C17'],''), 'C17-b':(['C17'],''),
 'C18-a':(['C18'],''), 'C18-b':(['C18'],''),
 'C19-a':(['C19'],''), 'C19-b':(['C19'],''),
 'C20-a':(['C20'],'missed at first (no two sizes sharing their integer part); caught after the size list was extended'), 'C20-b':(['C20'],''),
}
for key,(checks,note) in DET.items():
    pid,k=key.split('-')
    src=os.path.join(OUT,pid)
    if not os.path.exists(os.path.join(src,'patch_%s.diff'%k)): print('missing',key); continue
    d=os.path.join(DST,key); os.makedirs(d,exist_ok=True)
    shutil.copy(os.path.join(src,'patch_%s.diff'%k),os.path.join(d,'patch.diff'))
    shutil.copy(os.path.join(src,'demo_%s.py'%k),os.path.join(d,'demo.py'))
    notes=open(os.path.join(src,'notes_%s.md'%k)).read()
    evals=[open(f).read().strip() for f in sorted(glob.glob(os.path.join(src,'eval_%s*.txt'%k)))]
    meta={"property":pid,"origin":"written by an independent sub-agent that saw only the property text and its own worktree of /repo",
          "what_it_needs":notes.strip()[:1800],
          "confirmed":"scratch worktree /tmp/wt/%s at /repo HEAD: full test suite passes with the patch; demo.py exits 1 with the patch and 0 without"%pid,
          "detected_by":checks,"detection_note":note,"evaluation_log":[e[-600:] for e in evals[-2:]]}
    json.dump(meta,open(os.path.join(d,'meta.json'),'w'),indent=1)
print(sorted(os.listdir(DST)))
