#!/bin/sh
# usage: tools/eval_mutant.sh <Cxx> <k> [<check ids...>]   (evaluates $WTBASE/out/Cxx/patch_k.diff in worktree $WTBASE/Cxx; WTBASE defaults to /tmp/wt2)
ID="$1"; K="$2"; shift 2
CHECKS="${*:-$ID}"
B="${WTBASE:-/tmp/wt2}"; WT=$B/$ID; OUT=$B/out/$ID
cd "$WT" || exit 2
git checkout -q -- . ; git clean -fdq
git checkout -q --detach "$(git -C /repo rev-parse HEAD)"
git apply "$OUT/patch_$K.diff" || { echo "$ID/$K: patch does not apply"; exit 2; }
T=$(PYTHONPATH=$WT/src /venv/bin/python -m pytest -q -p no:cacheprovider -x 2>&1 | tail -1)
PYTHONPATH=$WT/src /venv/bin/python "$OUT/demo_$K.py" >/dev/null 2>&1; D1=$?
RES=""
for c in $CHECKS; do
  o=$(cd "${VDIR:-/verif}" && RTFLITE_SRC=$WT/src VERIF_NOEVIDENCE=1 timeout 3000 ./check "$c" --tier quick 2>&1); rc=$?
  first=$(printf '%s\n' "$o" | grep -A1 '^VIOLATION' | sed -n 2p | cut -c1-160)
  RES="$RES [$c rc=$rc $first]"
done
git checkout -q -- . ; git clean -fdq
PYTHONPATH=$WT/src /venv/bin/python "$OUT/demo_$K.py" >/dev/null 2>&1; D0=$?
echo "$ID/$K tests='$T' demo_mutant=$D1 demo_clean=$D0 $RES"
