#!/usr/bin/env python3
"""Regenerate /verif/MANIFEST.json from the table below (keeps the file valid at all times)."""
import json, os, subprocess
ROOT = os.path.dirname(os.path.dirname(os.path.abspath(__file__)))

PIPE_NOTE = ("Trusted base: TLC 1.8, the independent RTF reader (harness/rtfreader.py), the scenario concretiser "
             "(harness/pipeline.py), get_string_width as the ruler for line heights. The exhaustive TLC result transfers to the code only "
             "through the replayed scenarios (conformance: predicted vs observed block sequence); verdicts come from spec/PipeProps.tla "
             "clauses evaluated by TLC on every position of every recorded trace.")

CLAIMED = {
 "C02": ("5 C02", "TLC model checking of spec/Pipeline.tla + TLC trace validation (spec/PipeTrace.tla) of encodes read back by an independent RTF reader",
         "Every scenario TLC generates (all strategies, small tables exhaustively, large ones by -simulate) is encoded by the real rtf_encode(), read back, and TLC checks on each trace that the body rows are exactly the input rows in order with the input's display texts (tagged and random texts incl. nulls, ints, floats, blanks; optionally after a sibling / shadow document encoded by the same process)."),
 "C03": ("5 C03", "TLC model checking (intended and as-implemented design) + TLC trace validation of the row budget on real encodes; the intended rule additionally as an inductive invariant over unbounded integers (spec/BudgetInd.tla, Apalache)",
         "The budget invariant is model-checked on the intended design and, modulo the recorded findings, on the as-implemented design; every generated scenario is replayed through rtf_encode() and TLC sums, page by page, header, heading, data (independent line lower bound at the cell's own font) and table footnote/source rows; row heights from text cells, numeric cells and wrapping group_by labels."),
 "C04": ("5 C04", "TLC model checking of the online pagination machine + TLC trace validation incl. the two-run prefix relation; spec/FindBreaks.tla (public find_page_breaks) model-checked and replayed on the real method",
         "Break-only-when-required, forced breaks, non-empty contiguous pages and no-mix are invariants of the model and are evaluated by TLC on the page membership read back from real encodes; prefix stability is checked by encoding every prefix of sampled tables."),
 "C05": ("5 C05", "TLC model checking + TLC trace validation of heading placement on real encodes",
         "For 1-3 page_by levels, subline_by, dividers, every new_page/pageby_row/pageby_header choice TLC checks on every trace that the headings immediately before each data row are exactly the expected ones and that no heading is stranded."),
 "C06": ("5 C06", "TLC model checking + TLC trace validation of component placement and page-break geometry on real encodes",
         "Placement of title/subline/column headers/footnote/source per page, block order, break geometry against the configured inches x 1440 (portrait, landscape, A4, custom), and header/footer destination counts (one- and multi-line page header / footer), judged by TLC on traces of real encodes."),
 "C07": ("5 C07", "TLC model checking of the border hierarchy + TLC trace validation of every row's borders read back from real encodes",
         "The five border clauses are invariants of the model (branch-by-branch transcription of the border pass) and are evaluated by TLC on the \\clbrdr* of every table row of every page of real encodes, with distinguishable styles per setting."),
 "C08": ("5 C08", "TLC trace validation (integer cross-multiplied proportionality) of \\cellx read back from real encodes of TLC-generated scenarios",
         "Right edge, proportional boundaries within one twip, header alignment and single-cell spanning rows are evaluated by TLC on the cell boundaries of every table row, for 1..12 columns, removal of group columns at any position, six width patterns (incl. widths written for the displayed columns only), four header modes, three paper sizes, documents constructed on another page object."),
 "C09": ("5 C09", "TLC model checking of spec/CellFormat.tla + TLC trace validation (spec/CellTrace.tla) of every data cell's format read back from paginated and unpaginated encodes; spec/Broadcast.tla (recycling algebra) model-checked and every behaviour replayed on the real BroadcastValue; spec/ParaFormat.tla (per-line attribute patterns of the paragraph-rendered text components) model-checked and every behaviour replayed on the real components",
         "For each of the 27 body attributes, in scalar / per-column / matrix shape, TLC generates tables, page splits and removed-column positions; the real encode is read back and TLC checks every data cell against the value the attribute specifies for its original (row, column), and against the unpaginated rendering of the same table."),
 "C13": ("5 C13", "TLC model checking of spec/GroupBy.tla + TLC trace validation (spec/GroupTrace.tla) of group_by columns read back from real encodes",
         "All key sequences over {a,b,null} up to length 4-6 (1-2 levels) exhaustively, longer ones with 1-3 levels by simulation, with colliding key spellings and group_by columns stored in reverse order: TLC checks the blanking rule per observed row (with the observed page structure), untouched other columns, fill-down, and ValueError iff non-contiguous."),
 "C12": ("5 C12", "TLC model checking of spec/ColorCtx.tla and spec/ColorDoc.tla + TLC trace validation (spec/ColorTrace.tla) of every colour and font reference read back from real encodes",
         "Each of the 657 named colours on a body cell (exhaustive), all encoding paths x component modes (exhaustive) and random palettes of 1..8 colours on random components (documents of one and of 17+ pages) as text/background/border colour with the 10 fonts: TLC checks that every \\cf/\\chcbpat/\\brdrcf index names the document's own table entry with the requested RGB and every \\fN the requested font."),
 "C14": ("5 C14", "TLC model checking of operation histories (spec/ColorHist.tla over spec/ColorCtx.tla) + TLC trace validation (spec/HistTrace.tla) of histories executed in forked children",
         "TLC enumerates all histories up to the exhaustive length over a pool of 20 documents (two families sharing an RTFBody) (and simulates length-4 ones); each is executed in a forked child of an import-only parent and TLC checks, per operation, that the output digest equals the one from a fresh interpreter, that ValueError is raised exactly by the failing document, and that the caller's DataFrame is unchanged."),
 "C15": ("5 C15", "TLC model checking of all thread interleavings (spec/ColorCtx.tla), TLC-generated schedules replayed on real threads with a settrace gate, single preemption at every library call boundary (warm, fresh-process and saturated-process families; thread pairs sharing caller-owned components), nested two-preemption and three-switch (park, park, step out) schedules, conformance of recorded colour events (spec/CtxTrace.tla)",
         "All interleavings of 2 and 3 encoder processes are model-checked; every sampled TLC schedule of colour-context steps is replayed on real threads; thread A is preempted at every distinct library function call (thorough: every call instance) with thread B run to completion, plus sampled 2-3 preemptions with 3 threads; TLC judges that each thread's output equals its output alone and that the recorded colour events are a behaviour of the per-thread-context specification."),
 "C17": ("5 C17", "TLC model checking of spec/Assemble.tla (files as classified lines) + TLC trace validation (spec/AssembleTrace.tla) of assembled files read back, incl. environments (output aliasing an input, stale output, re-run, twin inputs, a failed or unrelated previous call of the process)",
         "All argument lists of up to 2-3 inputs over table/figure x colour x header/footer x 1-2 pages (exhaustive), lists with missing files, simulated lists of up to 6 inputs incl. landscape: the files are written by write_rtf, assembled by assemble_rtf, read back, and TLC checks well-formedness, page-by-page equality with the concatenated inputs, restated geometry at each input's first page, single-input identity, empty list and missing file behaviour."),
 "C18": ("5 C18", "TLC model checking of spec/Export.tla (fault points x converter outcomes x target states x writers) + TLC trace validation (spec/ExportTrace.tla) of file-system events and before/after snapshots of real exports with injected faults (exceptions at call boundaries, OSError at file-system operations), stub converters and the real LibreOfficeConverter driving a fake program; spec/Converter.tla + spec/ConvTrace.tla validate the program's own invocation log",
         "Every scenario TLC enumerates is executed: converter stubs for all outcomes, targets absent/existing/in a missing directory/home-relative (~), the working directory watched for debris, and a BaseException or Exception raised at the first instance of every distinct library call site (thorough: 2500 sampled call instances, all writers); TLC checks that a failure leaves the target bytes, its directory listing and the temporary directory unchanged, that a success puts exactly the expected bytes (and the HTML resource folder) at the target, that the target is touched only by the final step, and that an export in which nothing was made to fail completes."),
 "C10": ("5 C10", "TLC model checking of spec/UniEsc.tla (escape -> write -> read per code-point class and text position) + TLC trace validation (spec/UniTrace.tla) of files written by write_rtf and decoded from their bytes",
         "Class representatives x 12 text positions x conversion on/off (TLC-enumerated), random mixed strings, homogeneous whole texts (Python string predicates), and a code-point sweep through body cells (quick: boundaries +-64 and 30 000 sampled; thorough: every scalar value except C0/C1 controls): TLC checks that the reader decodes exactly the input, that every \\u argument is within -32768..32767 and is followed by exactly uc fallback characters."),
 "C11": ("5 C11", "TLC model checking of the documented scanner (spec/TextScan.tla, spec/TextConv.tla) + trace validation (spec/TextTrace.tla): the scanner consumes the reader's events of the rendered run action by action",
         "All abstract strings up to length 3 (thorough 4) over an 18-symbol alphabet in both modes (TLC, exhaustive) and longer simulated ones, each of the 682 table commands in 6 (thorough 40) context templates, probe strings in every component kind with default and overridden text_convert, per-cell text_convert incl. twin cells (same text, conversion on / off): the real rendering is read back and TLC replays the documented scanner against the reader's events."),
 "C16": ("5 C16", "TLC model checking of spec/Figure.tla + TLC trace validation (spec/FigTrace.tla) of figure documents read back (picture type, pixel and display dimensions, hex payload decoded)",
         "TLC generates figure documents (1..6 figures, width/height lists of any length, caption presence and placement); image files are random bytes with valid PNG/JPEG headers of random dimensions (PNG up to 2^31-1, boundaries of the 16-bit range) or EMF blobs, with payload sizes around the hex line boundary; TLC checks one picture per page in order, type, pixel size from the image header, display size = inches x 1440 with positional reuse of the last value, byte-exact payload (<=512 bytes byte by byte, larger by length+SHA-1) and captions per placement option."),
 "C19": ("5 C19", "TLC enumeration of the decision table (spec/Validate.tla) with one implementation test per row + TLC trace validation (spec/ValTrace.tla) of the exception class of every construction attempt",
         "Every row class x validated field x shape (scalar, vector, matrix) x position of the bad value is enumerated by TLC (693 rows) and concretised with 3 (thorough 25) random invalid values mixed with valid ones; TLC checks that each attempt raised ValueError (FileNotFoundError for a missing figure) and that the control construction with the valid value is accepted."),
 "C20": ("5 C20", "TLC-generated measurement histories (spec/StrWidth.tla) executed on get_string_width + TLC trace validation (spec/WidthTrace.tla) with widths logged exactly in 1/64 px",
         "All histories up to 1 (thorough 2) characters over font x size x character class x unit x dpi plus unsupported font/unit, 2 000 (thorough 100 000) simulated histories up to 14 characters and 2 500 (thorough 60 000) with homogeneous texts (all digits / capitals / blanks / one repeated character, closed by one other character): TLC checks zero/non-negative/monotone widths per appended character, number-vs-name equality, the monospace law, size scaling within 1 % (integer cross-multiplied), unit conversions within float rounding, and ValueError for unsupported arguments."),
 "C01": ("5 C01", "TLC-generated configurations (spec/DocConfig.tla, staged generator over 26 dimensions) encoded by the real code + TLC trace validation of the structural event stream with a pushdown acceptor (spec/RtfStream.tla)",
         "The reduced product (exhaustive) and 500 (thorough 30 000) configurations drawn from the full product - three encoding paths, seven strategies, five header modes, 0..12 rows, component presence, as_table flags, placements, paper, nrow, attribute shapes, integer and half-point sizes, eight cell kinds, every legal keyword of the enumerated cell options (vocab), key types and spellings of the grouping options, contiguous and non-contiguous group_by - are encoded; TLC runs the acceptor over every document's group/row/cell events: one top-level group starting with the signature, balance, nothing after the close, cell boundaries = cell contents, positive non-decreasing boundaries, no lexical error, and ValueError exactly for non-contiguous group_by."),
}
PENDING = {}

def main():
    checks = []
    for pid, (ref, tech, text) in sorted(CLAIMED.items()):
        checks.append({
            "property_id": pid,
            "quick_cmd": "./check %s --tier quick" % pid,
            "thorough_cmd": "./check %s --tier thorough" % pid,
            "evidence_file": "/verif/evidence/%s.json" % pid,
            "replay_cmd_template": "./check %s --replay {path}" % pid,
            "engine": "tlc",
            "level_claimed": {"category": "model_checking", "text": text, "design_ref": "DESIGN.md section " + ref},
            "level_note": PIPE_NOTE if pid in ("C02","C03","C04","C05","C06","C07","C08","C09","C13") else NOTES.get(pid, PIPE_NOTE),
            "technique": tech,
        })
    na = [{"property_id": "C%02d" % i, "reason": PENDING.get("C%02d" % i, "check not built yet (build in progress, DESIGN.md section 10)")}
          for i in range(1, 21) if "C%02d" % i not in CLAIMED]
    m = {
        "version": 1,
        "setup_cmd": "./tools/setup.sh",
        "hooks": {"guard": "RTFLITE_VERIF", "enable": "no source hooks are needed: every property is observable at the public API (DESIGN.md 3.4); RTFLITE_VERIF=1 is reserved",
                  "baseline_off_cmd": "cd /repo && /venv/bin/python -m pytest -ra -q -p no:cacheprovider --timeout=900 --continue-on-collection-errors",
                  "source_commits": [], "add_only": True},
        "engines": [{"name": "tlc", "path": "/verif/spec", "serves_properties": sorted(CLAIMED), "kind_free_text": "TLA+ specifications checked with TLC 1.8; harness in /verif/harness drives the real code"}],
        "checks": checks,
        "notes": "All checks: ./check <id> --tier quick|thorough [--replay path]; exit 0/1/2 = holds / VIOLATION / machinery failure. Known findings: /verif/known_findings.json.",
        "not_applicable": na,
    }
    with open(os.path.join(ROOT, "MANIFEST.json"), "w") as f:
        json.dump(m, f, indent=1)
    print("claimed", len(checks), "pending", len(na))

NOTES = {}
if __name__ == "__main__":
    main()
