----------------------------- MODULE GroupTrace -----------------------------
(* Property-level trace specification for C13.  One behaviour per recorded encode; each step
   consumes one observed data row: page, first-on-page flag, texts of the group_by columns,
   texts of the other columns.  A refused encode is a trace with no rows and an outcome. *)
EXTENDS Naturals, Integers, Sequences, FiniteSets, TLC, Json, IOUtils, GroupCfg
CONSTANT Judge
All == JsonDeserialize(IOEnv.TRACE_FILE)
VARIABLES tid, l, bad
vars == <<tid, l, bad>>
E(t) == All[t].ev
\* the page structure is the observed one: "first data row of a page" is read from the trace
ObsBlank(x, ev, pos, lv) == LET r == ev[pos].r IN
   r > 1 /\ Key(x, r, lv) = Key(x, r - 1, lv) /\ ~ev[pos].first
C13_Blank(x, ev, pos) ==
  (pos <= Len(ev) /\ ev[pos].r \in 1..x.n) =>
     \A lv \in 1..x.nlev : ev[pos].gx[lv] = (IF ObsBlank(x, ev, pos, lv) THEN "" ELSE Disp(x.keys[ev[pos].r][lv]))
C13_Others(x, ev, pos) ==
  (pos <= Len(ev) /\ ev[pos].r \in 1..x.n) => ev[pos].ox = x.others[ev[pos].r]
C13_Reject(x, ev, pos) ==
  (pos = Len(ev) + 1) => /\ (x.outcome = "ValueError") <=> ~Contiguous(x)
                         /\ x.outcome \in {"ok", "ValueError"}
                         /\ (x.outcome = "ok" => Len(ev) = x.n)
                         /\ (x.outcome = "ValueError" => Len(ev) = 0)
\* filling blanks downward within a page reconstructs a column without nulls
RECURSIVE Filled(_, _, _)
Filled(ev, pos, lv) == IF ev[pos].gx[lv] # "" \/ ev[pos].first \/ pos = 1 THEN ev[pos].gx[lv] ELSE Filled(ev, pos - 1, lv)
C13_FillDown(x, ev, pos) ==
  (pos <= Len(ev) /\ ev[pos].r \in 1..x.n) =>
     \A lv \in 1..x.nlev : (\A r \in 1..x.n : x.keys[r][lv] # "NULL") => Filled(ev, pos, lv) = x.keys[ev[pos].r][lv]
C13_Rows(x, ev, pos) == (pos <= Len(ev)) => ev[pos].r = pos
Holds(name, x, ev, pos) ==
  CASE name = "C13_Blank" -> C13_Blank(x, ev, pos)
    [] name = "C13_Others" -> C13_Others(x, ev, pos)
    [] name = "C13_Reject" -> C13_Reject(x, ev, pos)
    [] name = "C13_FillDown" -> C13_FillDown(x, ev, pos)
    [] name = "C13_Rows" -> C13_Rows(x, ev, pos)
Init == tid \in 1..Len(All) /\ l = 1 /\ bad = {}
Failing(t, pos) == {y \in Judge : ~Holds(y, All[t].c, E(t), pos)}
ConsumeRow == /\ l <= Len(E(tid)) /\ bad' = bad \cup {[cl |-> y, at |-> l] : y \in Failing(tid, l)}
              /\ l' = l + 1 /\ UNCHANGED tid
EndDoc == /\ l = Len(E(tid)) + 1 /\ bad' = bad \cup {[cl |-> y, at |-> l] : y \in Failing(tid, l)}
          /\ l' = l + 1 /\ UNCHANGED tid
Finish == /\ l = Len(E(tid)) + 2 /\ PrintT(ToJson([id |-> All[tid].id, bad |-> bad]))
          /\ l' = l + 1 /\ UNCHANGED <<tid, bad>>
Next == ConsumeRow \/ EndDoc \/ Finish
Spec == Init /\ [][Next]_vars
=============================================================================
