----------------------------- MODULE CellFormat -----------------------------
(***************************************************************************)
(* C09: cell formatting follows the data cell.                             *)
(*                                                                         *)
(* A body attribute is a value matrix of shape scalar (1x1), per-column    *)
(* (1xM) or full (NxM) over the ORIGINAL rows and columns.  The table is   *)
(* split into pages (by capacity, or at group changes), group columns may  *)
(* be removed from the display.  Lookup(r, c) is the step in which the     *)
(* renderer resolves the attribute of one displayed cell                   *)
(* (BroadcastValue.iloc inside TableAttributes._encode).                   *)
(*                                                                         *)
(* Values are enum indices: V(r, c) = (5r + 3c + salt) mod K for a matrix, *)
(* (3c + salt) mod K per column, salt mod K for a scalar (r, c 0-based,    *)
(* original coordinates); the harness concretises index i as the i-th      *)
(* legal value of the attribute and maps what it reads back to an index.   *)
(***************************************************************************)
EXTENDS Naturals, Integers, Sequences, FiniteSets, TLC, Json, CellCfg

CONSTANTS NSet, MSet, StratSet, GPosSet, G2Set, CapSet, ShapeSet, AttrSet, SaltSet,
          RebasePerPage      \* deviation flag: TRUE = matrix rows restart at every page (defect)

VARIABLES cfg, d, phase, r, c, out
vars == <<cfg, d, phase, r, c, out>>

Cfg0 == [strat |-> "plain", n |-> 1, m |-> 1, gpos |-> "first", g2 |-> "adjacent", cap |-> 100, grp |-> <<>>, shape |-> "scalar",
         attr |-> "text_font", salt |-> 0]
NDims == 10
Dim(k, x) ==
  CASE k = 1 -> <<"strat", StratSet>>
    [] k = 2 -> <<"n", NSet>>
    [] k = 3 -> <<"m", MSet>>
    [] k = 4 -> <<"gpos", IF x.strat = "plain" THEN {"first"} ELSE GPosSet>>
    [] k = 5 -> <<"cap", IF x.strat \in {"plain", "pbspan", "pb2span"} THEN CapSet ELSE {100}>>
    [] k = 10 -> <<"g2", IF x.strat \in {"pb2span", "subpb"} THEN G2Set ELSE {"adjacent"}>>
    [] k = 6 -> <<"grp", {}>>     \* vector dimension: TRUE where a new group starts
    [] k = 7 -> <<"shape", ShapeSet>>
    [] k = 8 -> <<"attr", AttrSet>>
    [] k = 9 -> <<"salt", SaltSet>>
ElemDom(x) == IF Len(x.grp) = 0 THEN {TRUE} ELSE IF x.strat = "plain" THEN {FALSE} ELSE BOOLEAN


\* what the code under test resolves (matrix rows restart at the top of every page)
Resolved(x, rr, j) == IF RebasePerPage THEN V(x, rr - PageStart(x, rr), OrigCol(x, j)) ELSE Expected(x, rr, j)

Init == cfg = Cfg0 /\ d = 1 /\ phase = "pick" /\ r = 1 /\ c = 0 /\ out = <<>>
Pick == /\ phase = "pick" /\ d <= NDims
        /\ IF d = 6
           THEN IF Len(cfg.grp) >= cfg.n THEN cfg' = cfg /\ d' = d + 1
                ELSE \E v \in ElemDom(cfg) : cfg' = [cfg EXCEPT !.grp = Append(@, v)] /\ d' = d
           ELSE /\ \E v \in Dim(d, cfg)[2] : cfg' = [cfg EXCEPT ![Dim(d, cfg)[1]] = v]
                /\ d' = d + 1
        /\ UNCHANGED <<phase, r, c, out>>
Start == phase = "pick" /\ d > NDims /\ phase' = "render" /\ UNCHANGED <<cfg, d, r, c, out>>
Lookup == /\ phase = "render" /\ r <= cfg.n
          /\ out' = Append(out, [r |-> r, j |-> c, idx |-> Resolved(cfg, r, c)])
          /\ IF c + 1 < NDisp(cfg) THEN c' = c + 1 /\ r' = r ELSE c' = 0 /\ r' = r + 1
          /\ UNCHANGED <<cfg, d, phase>>
Done == phase = "render" /\ r > cfg.n /\ phase' = "done" /\ UNCHANGED <<cfg, d, r, c, out>>
Next == Pick \/ Start \/ Lookup \/ Done
Spec == Init /\ [][Next]_vars

\* C09, direct rule: every resolved value is the one the attribute specifies for the cell's
\* original position
C09_Direct == \A k \in 1..Len(out) : out[k].idx = Expected(cfg, out[k].r, out[k].j)
\* C09, metamorphic rule on the model: the resolution does not depend on the page split
C09_PageIndependent == \A k \in 1..Len(out) :
   out[k].idx = V(cfg, out[k].r - 1, OrigCol(cfg, out[k].j))
Emit == phase = "done" => PrintT(ToJson([cfg |-> cfg, out |-> out]))
=============================================================================
