----------------------------- MODULE WidthTrace -----------------------------
(* Property-level trace specification for C20.  One behaviour per measurement history on the
   real get_string_width; each step consumes one observation after an Append (the width of
   the text so far, in 1/64 px, by font number and by font name) and the end state carries the
   unit conversions, the size-scaling pair and the outcome of unsupported arguments.
   All numbers are integers: widths in 1/64 px, sizes in quarter points, errors in ulps. *)
EXTENDS Naturals, Integers, Sequences, FiniteSets, TLC, Json, IOUtils
CONSTANT Judge
All == JsonDeserialize(IOEnv.TRACE_FILE)
VARIABLES tid, l, bad
vars == <<tid, l, bad>>
E(t) == All[t].ev
Abs(x) == IF x < 0 THEN -x ELSE x
\* ev[1] is the observation for the empty text, ev[k + 1] after k characters
C20_Zero(x, ev, pos) == (pos = 1 /\ pos <= Len(ev)) => (ev[1].n = 0 /\ ev[1].w64 = 0)
C20_NonNegative(x, ev, pos) == pos <= Len(ev) => ev[pos].w64 >= 0
C20_Monotone(x, ev, pos) == (pos <= Len(ev) /\ pos > 1) => ev[pos].w64 >= ev[pos - 1].w64
C20_ByName(x, ev, pos) == pos <= Len(ev) => ev[pos].w64 = ev[pos].w64name
C20_Exact64(x, ev, pos) == pos <= Len(ev) => ev[pos].exact          \* the logged integer is exact (no rounding happened)
C20_Mono(x, ev, pos) == (pos <= Len(ev) /\ x.font = 9) => ev[pos].w64 = ev[pos].n * x.adv64
\* 100 |w(s2) s1 - w(s1) s2| <= w(s1) s2    (sizes in quarter points, widths of the full text)
C20_Scale(x, ev, pos) == (pos = Len(ev) + 1 /\ x.outcome = "ok") =>
   100 * Abs(x.w2 * x.s1 - x.w1 * x.s2) <= x.w1 * x.s2
\* the same allowing for the 1/64 px rounding of every glyph advance (n glyphs: each width is off
\* by at most n/2 units), which is what explains the recorded finding at very small sizes
C20_ScaleModuloQuantisation(x, ev, pos) == (pos = Len(ev) + 1 /\ x.outcome = "ok") =>
   200 * Abs(x.w2 * x.s1 - x.w1 * x.s2) <= 2 * x.w1 * x.s2 + 100 * (Len(ev) - 1) * (x.s1 + x.s2)
C20_Units(x, ev, pos) == (pos = Len(ev) + 1 /\ x.outcome = "ok") => (x.ulp_in <= 4 /\ x.ulp_mm <= 4 /\ x.ulp_px = 0)   \* a few ulps of float rounding; a wrong factor is off by >10^12
C20_Reject(x, ev, pos) == (pos = Len(ev) + 1) => (x.bad # "none" <=> x.outcome = "ValueError") /\ x.outcome \in {"ok", "ValueError"}
Holds(name, x, ev, pos) ==
  CASE name = "C20_Zero" -> C20_Zero(x, ev, pos) [] name = "C20_NonNegative" -> C20_NonNegative(x, ev, pos)
    [] name = "C20_Monotone" -> C20_Monotone(x, ev, pos) [] name = "C20_ByName" -> C20_ByName(x, ev, pos)
    [] name = "C20_Exact64" -> C20_Exact64(x, ev, pos) [] name = "C20_Mono" -> C20_Mono(x, ev, pos)
    [] name = "C20_Scale" -> C20_Scale(x, ev, pos) [] name = "C20_ScaleModuloQuantisation" -> C20_ScaleModuloQuantisation(x, ev, pos) [] name = "C20_Units" -> C20_Units(x, ev, pos)
    [] name = "C20_Reject" -> C20_Reject(x, ev, pos)
Init == tid \in 1..Len(All) /\ l = 1 /\ bad = {}
Failing(t, pos) == {y \in Judge : ~Holds(y, All[t].c, E(t), pos)}
ConsumeAppend == /\ l <= Len(E(tid)) /\ bad' = bad \cup {[cl |-> y, at |-> l] : y \in Failing(tid, l)} /\ l' = l + 1 /\ UNCHANGED tid
ConsumeMeasure == /\ l = Len(E(tid)) + 1 /\ bad' = bad \cup {[cl |-> y, at |-> l] : y \in Failing(tid, l)} /\ l' = l + 1 /\ UNCHANGED tid
Finish == /\ l = Len(E(tid)) + 2 /\ PrintT(ToJson([id |-> All[tid].id, bad |-> bad])) /\ l' = l + 1 /\ UNCHANGED <<tid, bad>>
Next == ConsumeAppend \/ ConsumeMeasure \/ Finish
Spec == Init /\ [][Next]_vars
=============================================================================
