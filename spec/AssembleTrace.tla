---------------------------- MODULE AssembleTrace ----------------------------
(* Property-level trace specification for C17: one behaviour per assemble_rtf call on files
   written by rtflite.  Each step consumes one page of the assembled output as read back
   (sig = signature of the page content, geom = paper geometry restated on that page or <<>>);
   c.inputs[n] = [pages (signatures), geom] of the n-th input read back on its own. *)
EXTENDS Naturals, Integers, Sequences, FiniteSets, TLC, Json, IOUtils
CONSTANT Judge
All == JsonDeserialize(IOEnv.TRACE_FILE)
VARIABLES tid, l, bad
vars == <<tid, l, bad>>
E(t) == All[t].ev
RECURSIVE Concat(_, _)
Concat(ins, n) == IF n = 0 THEN <<>> ELSE Concat(ins, n - 1) \o ins[n].pages
RECURSIVE FirstPageOf(_, _)
FirstPageOf(ins, n) == IF n = 1 THEN 1 ELSE FirstPageOf(ins, n - 1) + Len(ins[n - 1].pages)
Normal(x) == x.nmissing = 0 /\ Len(x.inputs) > 0
C17_WellFormed(x, ev, pos) ==
  (pos = Len(ev) + 1 /\ Normal(x)) => /\ x.obs.final_depth = 0 /\ x.obs.min_depth = 0 /\ x.obs.top_groups = 1
                                      /\ x.obs.trailing = 0 /\ x.obs.signature /\ x.obs.lexerrs = 0
C17_Pages(x, ev, pos) ==
  Normal(x) => IF pos <= Len(ev)
               THEN pos <= Len(Concat(x.inputs, Len(x.inputs))) /\ ev[pos].sig = Concat(x.inputs, Len(x.inputs))[pos]
               ELSE Len(ev) = Len(Concat(x.inputs, Len(x.inputs)))
C17_Geometry(x, ev, pos) ==
  (Normal(x) /\ pos <= Len(ev)) =>
     \A n \in 2..Len(x.inputs) : pos = FirstPageOf(x.inputs, n) => ev[pos].geom = x.inputs[n].geom
C17_Single(x, ev, pos) == (pos = Len(ev) + 1 /\ Normal(x) /\ Len(x.inputs) = 1) => x.outdigest = x.inputs[1].digest
C17_Empty(x, ev, pos) == (pos = Len(ev) + 1 /\ Len(x.inputs) = 0 /\ x.nmissing = 0) => (~x.wrote /\ x.outcome = "ok")
C17_Missing(x, ev, pos) == (pos = Len(ev) + 1 /\ x.nmissing > 0) => (x.outcome = "FileNotFoundError" /\ ~x.wrote)
C17_Outcome(x, ev, pos) == (pos = Len(ev) + 1 /\ Normal(x)) => (x.outcome = "ok" /\ x.wrote)
Holds(name, x, ev, pos) ==
  CASE name = "C17_WellFormed" -> C17_WellFormed(x, ev, pos)
    [] name = "C17_Pages" -> C17_Pages(x, ev, pos)
    [] name = "C17_Geometry" -> C17_Geometry(x, ev, pos)
    [] name = "C17_Single" -> C17_Single(x, ev, pos)
    [] name = "C17_Empty" -> C17_Empty(x, ev, pos)
    [] name = "C17_Missing" -> C17_Missing(x, ev, pos)
    [] name = "C17_Outcome" -> C17_Outcome(x, ev, pos)
Init == tid \in 1..Len(All) /\ l = 1 /\ bad = {}
Failing(t, pos) == {y \in Judge : ~Holds(y, All[t].c, E(t), pos)}
ConsumePage == /\ l <= Len(E(tid)) + 1 /\ bad' = bad \cup {[cl |-> y, at |-> l] : y \in Failing(tid, l)}
               /\ l' = l + 1 /\ UNCHANGED tid
Finish == /\ l = Len(E(tid)) + 2 /\ PrintT(ToJson([id |-> All[tid].id, bad |-> bad]))
          /\ l' = l + 1 /\ UNCHANGED <<tid, bad>>
Next == ConsumePage \/ Finish
Spec == Init /\ [][Next]_vars
=============================================================================
