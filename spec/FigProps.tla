------------------------------ MODULE FigProps ------------------------------
(* C16 predicates over a scenario record c and the event sequence E of a figure document
   (model output of Figure.tla or events read back from a real encode).
   Event fields: k ("break" "title" "subline" "pict" "foot" "src" "other"), p (page), i (figure
   index for pict), fmt, picw, pich, wgoal, hgoal, dlen, dsha, hexok, bytes, geom. *)
EXTENDS Naturals, Integers, Sequences, FiniteSets
Min(a, b) == IF a < b THEN a ELSE b
Show(opt, p, P) == opt = "all" \/ (opt = "first" /\ p = 1) \/ (opt = "last" /\ p = P)
OnPage(E, p) == {j \in 1..Len(E) : E[j].p = p}
Count(E, p, K) == Cardinality({j \in OnPage(E, p) : E[j].k \in K})
LastOfPage(E, l) == l <= Len(E) /\ (l = Len(E) \/ E[l + 1].p # E[l].p)
Rank(k) == CASE k = "break" -> 0 [] k = "title" -> 1 [] k = "subline" -> 2 [] k = "pict" -> 3 [] k = "foot" -> 4 [] k = "src" -> 5 [] OTHER -> 9
Dim(L, i) == L[Min(i, Len(L))]        \* sizes are taken positionally, the last value is reused
C16_OnePerPage(c, E, l) ==
  /\ (LastOfPage(E, l) => Count(E, E[l].p, {"pict"}) = 1)
  /\ ((l <= Len(E) /\ E[l].k = "pict") => E[l].i = E[l].p)
  /\ (l = Len(E) + 1 => (Len(E) > 0 /\ E[Len(E)].p = c.n))
C16_Kind(c, E, l) == (l <= Len(E) /\ E[l].k = "pict" /\ E[l].i \in 1..c.n) => E[l].fmt = c.files[E[l].i].fmt
C16_Pixels(c, E, l) == (l <= Len(E) /\ E[l].k = "pict" /\ E[l].i \in 1..c.n /\ c.files[E[l].i].fmt # "emf") =>
                          (E[l].picw = c.files[E[l].i].w /\ E[l].pich = c.files[E[l].i].h)
C16_Goal(c, E, l) == (l <= Len(E) /\ E[l].k = "pict" /\ E[l].i \in 1..c.n) =>
                        (E[l].wgoal = Dim(c.fw, E[l].i) /\ E[l].hgoal = Dim(c.fh, E[l].i))
C16_Bytes(c, E, l) == (l <= Len(E) /\ E[l].k = "pict" /\ E[l].i \in 1..c.n) =>
                         /\ E[l].hexok /\ E[l].dlen = c.files[E[l].i].len /\ E[l].dsha = c.files[E[l].i].sha
                         /\ E[l].bytes = c.files[E[l].i].bytes         \* the bytes themselves for payloads <= 512 bytes (<<>> otherwise)
C16_Captions(c, E, l) ==
  /\ (LastOfPage(E, l) =>
        LET p == E[l].p IN
          /\ Count(E, p, {"title"}) = (IF c.title /\ Show(c.ptitle, p, c.n) THEN 1 ELSE 0)
          /\ Count(E, p, {"foot"}) = (IF c.foot /\ Show(c.pfoot, p, c.n) THEN 1 ELSE 0)
          /\ Count(E, p, {"src"}) = (IF c.src /\ Show(c.psrc, p, c.n) THEN 1 ELSE 0))
  /\ ((l <= Len(E) /\ l > 1 /\ E[l - 1].p = E[l].p) => (Rank(E[l - 1].k) <= Rank(E[l].k) /\ Rank(E[l].k) < 9))
\* C06 for figure documents: the subline accompanies the pages page_title selects, like the title
C06_FigSubline(c, E, l) ==
  LastOfPage(E, l) => Count(E, E[l].p, {"subline"}) = (IF c.subline /\ Show(c.ptitle, E[l].p, c.n) THEN 1 ELSE 0)
\* C06 for figure documents: every page after the first begins with a break restating the geometry
C06_FigBreak(c, E, l) ==
  /\ ((l <= Len(E) /\ l > 1 /\ E[l].p # E[l - 1].p) => (E[l].k = "break" /\ E[l].geom = c.geom))
  /\ ((l <= Len(E) /\ E[l].k = "break") => (E[l].p > 1 /\ (l = 1 \/ E[l - 1].p = E[l].p - 1)))
=============================================================================
