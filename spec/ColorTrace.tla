----------------------------- MODULE ColorTrace -----------------------------
(* Property-level trace specification for C12: one behaviour per encoded document; each step
   consumes one colour or font reference read back from the output (kind, role, idx, want).
   c.tbl is the emitted colour table (sequence of <<r,g,b>>, entry 0 omitted), c.fonts the
   emitted font table (name of \fN at position N+1). *)
EXTENDS Naturals, Integers, Sequences, FiniteSets, TLC, Json, IOUtils
CONSTANT Judge
All == JsonDeserialize(IOEnv.TRACE_FILE)
VARIABLES tid, l, bad
vars == <<tid, l, bad>>
E(t) == All[t].ev
IsColour(e) == e.kind \in {"cf", "cb", "brdr"}
C12_Resolve(x, ev, pos) ==
  (pos <= Len(ev) /\ IsColour(ev[pos])) =>
     IF ev[pos].want = <<>> THEN ev[pos].idx = 0
     ELSE \/ (ev[pos].want = <<0, 0, 0>> /\ ev[pos].idx = 0)       \* index 0 is the default colour (black)
          \/ (ev[pos].idx \in 1..Len(x.tbl) /\ x.tbl[ev[pos].idx] = ev[pos].want)
C12_Font(x, ev, pos) ==
  (pos <= Len(ev) /\ ev[pos].kind = "font") =>
     /\ ev[pos].idx = ev[pos].num - 1
     /\ ev[pos].idx + 1 \in 1..Len(x.fonts) /\ x.fonts[ev[pos].idx + 1] = ev[pos].want
C12_Complete(x, ev, pos) ==
  (pos = Len(ev) + 1) => /\ \A r \in 1..Len(x.need) : \E j \in 1..Len(ev) : ev[j].role = x.need[r]
                         /\ x.ncolortbl <= 1
Holds(name, x, ev, pos) ==
  CASE name = "C12_Resolve" -> C12_Resolve(x, ev, pos)
    [] name = "C12_Font" -> C12_Font(x, ev, pos)
    [] name = "C12_Complete" -> C12_Complete(x, ev, pos)
Init == tid \in 1..Len(All) /\ l = 1 /\ bad = {}
Failing(t, pos) == {y \in Judge : ~Holds(y, All[t].c, E(t), pos)}
ConsumeRef == /\ l <= Len(E(tid)) + 1 /\ bad' = bad \cup {[cl |-> y, at |-> l] : y \in Failing(tid, l)}
              /\ l' = l + 1 /\ UNCHANGED tid
Finish == /\ l = Len(E(tid)) + 2 /\ PrintT(ToJson([id |-> All[tid].id, bad |-> bad]))
          /\ l' = l + 1 /\ UNCHANGED <<tid, bad>>
Next == ConsumeRef \/ Finish
Spec == Init /\ [][Next]_vars
=============================================================================
