------------------------------ MODULE UniTrace ------------------------------
(* Property-level trace specification for C10.  One behaviour per written file; each step
   consumes one text segment of it: the code points put in (cps), what the reader decoded from
   the file bytes (dec), the \u arguments found (us) and the number of fallback characters that
   followed each of them (fb), with the uc value in force (uc). *)
EXTENDS Naturals, Integers, Sequences, FiniteSets, TLC, Json, IOUtils
CONSTANT Judge
All == JsonDeserialize(IOEnv.TRACE_FILE)
VARIABLES tid, l, bad
vars == <<tid, l, bad>>
E(t) == All[t].ev
C10_RoundTrip(ev, pos) == pos <= Len(ev) => ev[pos].dec = ev[pos].cps
C10_Range(ev, pos) == pos <= Len(ev) => \A j \in 1..Len(ev[pos].us) : ev[pos].us[j] >= -32768 /\ ev[pos].us[j] <= 32767
C10_Fallback(ev, pos) == pos <= Len(ev) => \A j \in 1..Len(ev[pos].fb) : ev[pos].fb[j] = ev[pos].uc
C10_Lexical(x, ev, pos) == (pos = Len(ev) + 1) => (x.lexerrs = 0 /\ x.fallback_errs = 0 /\ x.found = x.expected)
Holds(name, x, ev, pos) ==
  CASE name = "C10_RoundTrip" -> C10_RoundTrip(ev, pos)
    [] name = "C10_Range" -> C10_Range(ev, pos)
    [] name = "C10_Fallback" -> C10_Fallback(ev, pos)
    [] name = "C10_Lexical" -> C10_Lexical(x, ev, pos)
Init == tid \in 1..Len(All) /\ l = 1 /\ bad = {}
Failing(t, pos) == {y \in Judge : ~Holds(y, All[t].c, E(t), pos)}
ConsumeSegment == /\ l <= Len(E(tid)) + 1 /\ bad' = bad \cup {[cl |-> y, at |-> l] : y \in Failing(tid, l)}
                  /\ l' = l + 1 /\ UNCHANGED tid
Finish == /\ l = Len(E(tid)) + 2 /\ PrintT(ToJson([id |-> All[tid].id, bad |-> bad]))
          /\ l' = l + 1 /\ UNCHANGED <<tid, bad>>
Next == ConsumeSegment \/ Finish
Spec == Init /\ [][Next]_vars
=============================================================================
