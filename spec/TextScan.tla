------------------------------ MODULE TextScan ------------------------------
(* The documented text conversion of C11 as a scanner over an abstract alphabet: the
   constant-level part (one scanner step), shared by the generator/model TextConv and the trace
   specification TextTrace.  See TextConv.tla for the alphabet and the event vocabulary. *)
EXTENDS Naturals, Integers, Sequences, FiniteSets, TLC
CONSTANTS GeDelimiterSpace,      \* TRUE: '>=' / '<=' leave the delimiter space of \geq / \leq visible
          FieldTrailingSpace     \* TRUE: \pagefield is followed by a visible space (the group's trailing blank)

Letters == {"x", "A", "B", "M", "p"}
Piece(sym) == CASE sym = "x" -> <<101>> [] sym = "A" -> <<105, 110>> [] sym = "B" -> <<116>>
                [] sym = "M" -> <<109, 97, 116, 104, 98, 98>>
                [] sym = "p" -> <<112, 97, 103, 101, 110, 117, 109, 98, 101, 114>>
                [] sym = "1" -> <<49>> [] sym = "sp" -> <<32>> [] sym = "^" -> <<94>> [] sym = "_" -> <<95>>
                [] sym = ">" -> <<62>> [] sym = "<" -> <<60>> [] sym = "=" -> <<61>> [] sym = "." -> <<46>>
                [] sym = "G" -> <<82>>       \* the braces of a balanced group are not characters for a reader
                [] sym = "E" -> <<>>         \* "{}": an empty balanced group
                [] sym = "H" -> <<>>         \* "{\in}": a group holding a supported command (events: GroupEv)
                [] OTHER -> <<>>
Ch(cp) == [t |-> "c", v |-> cp, p |-> -1]
Kw(name, param) == [t |-> "k", v |-> name, p |-> param]
Chars(cps) == [j \in 1..Len(cps) |-> Ch(cps[j])]
Groups == {"G", "E", "H"}
\* what a reader sees of a group that was looked up together with the command before it (nothing inside is converted)
GroupEv(sym) == IF sym = "H" THEN <<Kw("in", -1)>> ELSE Chars(Piece(sym))
Name(sym) == CASE sym = "x" -> "e" [] sym = "A" -> "in" [] sym = "B" -> "t" [] sym = "M" -> "mathbb" [] sym = "p" -> "pagenumber" [] OTHER -> ""
RECURSIVE RunName(_, _, _)
RunName(s, from, to) == IF from > to THEN "" ELSE Name(s[from]) \o RunName(s, from + 1, to)
RECURSIVE RunChars(_, _, _)
RunChars(s, from, to) == IF from > to THEN <<>> ELSE Chars(Piece(s[from])) \o RunChars(s, from + 1, to)
\* end of the maximal letter run starting at position a (a - 1 if s[a] is not a letter)
RECURSIVE RunEnd(_, _)
RunEnd(s, a) == IF a <= Len(s) /\ s[a] \in Letters THEN RunEnd(s, a + 1) ELSE a - 1
\* number of digit symbols following position a
RECURSIVE DigitsEnd(_, _)
DigitsEnd(s, a) == IF a <= Len(s) /\ s[a] = "1" THEN DigitsEnd(s, a + 1) ELSE a - 1
RECURSIVE Ones(_)
Ones(n) == IF n = 0 THEN 0 ELSE 10 * Ones(n - 1) + 1

\* ---- one scanner step: <<events, next position>> for input s at position i ----
\* a verbatim control word absorbs a following digit run as its parameter and one delimiter space
Verbatim(s, name, after) ==
  LET de == DigitsEnd(s, after)
      param == IF de >= after THEN Ones(de - after + 1) ELSE -1
      nxt == de + 1
  IN << <<Kw(name, param)>>, IF nxt <= Len(s) /\ s[nxt] = "sp" THEN nxt + 1 ELSE nxt >>
\* deviation (FieldTrailingSpace): \pagefield is expanded to a brace group BEFORE commands are
\* recognised, so a command directly followed by it is looked up together with that group and
\* stays verbatim
GluedToField(s, e) == FieldTrailingSpace /\ e + 1 <= Len(s) /\ s[e + 1] = "F"
\* "K": one supported command of the symbol table, given by the context record
\*      k = [name (letters after the backslash), cps (its code points), braced (the command text
\*      includes its own brace group), arg (code points inside that group)]
\* "T" = \totalpage   "F" = \pagefield
\* a command that stays verbatim in the file: following letters belong to its name, a directly
\* following group is read as a group, a digit run as its parameter
VerbatimCmd(s, i, name0) ==
  LET e == RunEnd(s, i + 1)
      name == name0 \o RunName(s, i + 1, e)
  IN IF e + 1 <= Len(s) /\ s[e + 1] \in Groups THEN << <<Kw(name, -1)>> \o GroupEv(s[e + 1]), e + 2 >> ELSE Verbatim(s, name, e + 1)
\* a context record may also describe a command that is NOT in the table (a supported name in another letter case):
\* it stays verbatim in both modes, exactly like any other unknown command
KUnknown(k) == "unknown" \in DOMAIN k /\ k.unknown
KCommand(s, i, conv, k) ==
  IF KUnknown(k) THEN (IF k.braced THEN << <<Kw(k.name, -1)>> \o Chars(k.arg), i + 1 >> ELSE VerbatimCmd(s, i, k.name)) ELSE
  LET e == RunEnd(s, i + 1)                       \* letters glued to the command name
      name == k.name \o RunName(s, i + 1, e)
      braced == e + 1 <= Len(s) /\ s[e + 1] \in Groups
      grp == IF braced THEN GroupEv(s[e + 1]) ELSE <<>>
  IN IF k.braced
     THEN (IF conv THEN << Chars(k.cps), i + 1 >> ELSE << <<Kw(k.name, -1)>> \o Chars(k.arg), i + 1 >>)
     ELSE IF ~conv THEN (IF braced THEN << <<Kw(name, -1)>> \o grp, e + 2 >> ELSE Verbatim(s, name, e + 1))
     ELSE IF GluedToField(s, e) THEN << <<Kw(name, -1)>>, e + 1 >>
     ELSE IF e >= i + 1 /\ ~braced THEN Verbatim(s, name, e + 1)                     \* longest letter run: another, unknown, name
     ELSE IF braced THEN << <<Kw(name, -1)>> \o grp, e + 2 >>                        \* looked up together with the group: unknown
     ELSE << Chars(k.cps), i + 1 >>
Command(s, i, conv) ==
  LET e == RunEnd(s, i + 1)
      name == RunName(s, i + 1, e)
      braced == e + 1 <= Len(s) /\ s[e + 1] \in Groups
      grp == IF braced THEN GroupEv(s[e + 1]) ELSE <<>>
  IN IF e < i + 1 THEN << <<>>, i + 1 >>                                   \* lone backslash: outside the quantifier
     ELSE IF ~conv THEN (IF braced THEN << <<Kw(name, -1)>> \o grp, e + 2 >> ELSE Verbatim(s, name, e + 1))
     ELSE IF s[i + 1] = "p" THEN << <<Kw("chpgn", -1)>> \o RunChars(s, i + 2, e), e + 1 >>      \* page-number keyword
     ELSE IF GluedToField(s, e) THEN << <<Kw(name, -1)>>, e + 1 >>
     ELSE IF braced THEN (IF name = "mathbb" /\ s[e + 1] = "G" THEN << <<Ch(8477)>>, e + 2 >>         \* \mathbb{R}
                          ELSE << <<Kw(name, -1)>> \o grp, e + 2 >>)                 \* looked up together: unknown
     ELSE IF name = "in" THEN << <<Ch(8712)>>, e + 1 >>
     ELSE IF name = "int" THEN << <<Ch(8747)>>, e + 1 >>
     ELSE Verbatim(s, name, e + 1)
Step(s, i, conv, k) ==
  LET sym == s[i] IN
  IF sym = "bs" THEN Command(s, i, conv)
  ELSE IF sym = "K" THEN KCommand(s, i, conv, k)
  ELSE IF sym = "T" THEN (IF conv THEN << <<Kw("totalpage", -1)>>, i + 1 >> ELSE VerbatimCmd(s, i, "totalpage"))
  ELSE IF sym = "F" THEN (IF conv THEN << <<Kw("field:NUMPAGES", -1)>> \o (IF FieldTrailingSpace THEN <<Ch(32)>> ELSE <<>>), i + 1 >>
                          ELSE VerbatimCmd(s, i, "pagefield"))
  \* a group that does not directly follow a command: its content is converted like any other text
  ELSE IF sym = "H" THEN << IF conv THEN <<Ch(8712)>> ELSE <<Kw("in", -1)>>, i + 1 >>
  ELSE IF ~conv THEN (IF sym = "nl" THEN << <<>>, i + 1 >> ELSE << Chars(Piece(sym)), i + 1 >>)
  ELSE IF sym = "^" THEN << <<Kw("super", -1)>>, i + 1 >>
  ELSE IF sym = "_" THEN << <<Kw("sub", -1)>>, i + 1 >>
  ELSE IF sym = ">" /\ i < Len(s) /\ s[i + 1] = "=" THEN << <<Ch(8805)>> \o (IF GeDelimiterSpace THEN <<Ch(32)>> ELSE <<>>), i + 2 >>
  ELSE IF sym = "<" /\ i < Len(s) /\ s[i + 1] = "=" THEN << <<Ch(8804)>> \o (IF GeDelimiterSpace THEN <<Ch(32)>> ELSE <<>>), i + 2 >>
  ELSE IF sym = "nl" THEN << <<Kw("line", -1)>>, i + 1 >>
  ELSE << Chars(Piece(sym)), i + 1 >>
NoK == [name |-> "", cps |-> <<>>, braced |-> FALSE, arg |-> <<>>]
ActionName(s, i) == CASE s[i] \in {"bs", "K", "T", "F"} -> "Command" [] s[i] = "^" -> "Caret" [] s[i] = "_" -> "Under"
                      [] s[i] \in {">", "<"} /\ i < Len(s) /\ s[i + 1] = "=" -> "Compare" [] s[i] = "nl" -> "Newline" [] OTHER -> "Literal"
\* strings of the quantifier: a backslash is always followed by a letter piece
WellFormedInput(s) == \A j \in 1..Len(s) : s[j] = "bs" => (j < Len(s) /\ s[j + 1] \in Letters)

=============================================================================
