------------------------------- MODULE UniEsc -------------------------------
(***************************************************************************)
(* C10: a character on its way from the user's text to an RTF reader.        *)
(*   Escape   TextContent._convert_special_chars: raw character or \uN       *)
(*   Write    write_rtf stores the string as UTF-8                           *)
(*   Read     an RTF reader decodes: 7-bit ASCII, raw high bytes in the      *)
(*            document's ANSI code page (1252), \uN with uc fallback skipped, *)
(*            surrogate pairs combined                                       *)
(* Code points are partitioned with the code's own boundaries; the model     *)
(* carries both neighbours of every boundary.  Deviation flags (TRUE = what  *)
(* the property describes): EscapeLatin1 (0x80-0xFF written as \uN),          *)
(* AstralPairs (>= 0x10000 written as a surrogate pair), EscapeEverywhere    *)
(* (no text position bypasses the escaping).                                 *)
(***************************************************************************)
EXTENDS Naturals, Integers, Sequences, FiniteSets, TLC, Json
CONSTANTS CPs, Positions, EscapeLatin1, AstralPairs, EscapeEverywhere
VARIABLES cp, where, phase, toks, bytes, dec
vars == <<cp, where, phase, toks, bytes, dec>>
U(v) == [t |-> "u", v |-> v, fb |-> 1]       \* \uc1\uN* : one fallback character follows
Raw(c) == [t |-> "raw", v |-> c, fb |-> 0]
Signed(v) == IF v < 32768 THEN v ELSE v - 65536
Hi(c) == 55296 + ((c - 65536) \div 1024)
Lo(c) == 56320 + ((c - 65536) % 1024)
Bypass(w) == ~EscapeEverywhere /\ w = "sublineby"
Escape(c, w) ==
  IF Bypass(w) THEN <<Raw(c)>>
  ELSE IF c < 128 THEN <<Raw(c)>>
  ELSE IF c <= 255 /\ c # 177 /\ ~EscapeLatin1 THEN <<Raw(c)>>
  ELSE IF c >= 65536 THEN (IF AstralPairs THEN <<U(Signed(Hi(c))), U(Signed(Lo(c)))>> ELSE <<U(c - 65536)>>)
  ELSE <<U(Signed(c))>>
\* UTF-8 encoding of a raw character, as a sequence of byte values
Utf8(c) == IF c < 128 THEN <<c>>
           ELSE IF c < 2048 THEN <<192 + (c \div 64), 128 + (c % 64)>>
           ELSE IF c < 65536 THEN <<224 + (c \div 4096), 128 + ((c \div 64) % 64), 128 + (c % 64)>>
           ELSE <<240 + (c \div 262144), 128 + ((c \div 4096) % 64), 128 + ((c \div 64) % 64), 128 + (c % 64)>>
\* a reader decodes a raw high byte in code page 1252 (0x80-0x9F map to other characters)
Cp1252(b) == IF b < 128 \/ b >= 160 THEN b ELSE 8000 + b
RECURSIVE DecodeToks(_, _)
DecodeToks(ts, pendingHi) ==
  IF ts = <<>> THEN (IF pendingHi = 0 THEN <<>> ELSE <<65533>>)
  ELSE LET x == Head(ts) IN
    IF x.t = "raw" THEN (IF pendingHi = 0 THEN <<>> ELSE <<65533>>) \o [j \in 1..Len(Utf8(x.v)) |-> Cp1252(Utf8(x.v)[j])] \o DecodeToks(Tail(ts), 0)
    ELSE LET v == IF x.v < 0 THEN x.v + 65536 ELSE x.v IN
         IF v >= 55296 /\ v <= 56319 THEN DecodeToks(Tail(ts), v)
         ELSE IF v >= 56320 /\ v <= 57343 /\ pendingHi # 0
              THEN <<65536 + (pendingHi - 55296) * 1024 + (v - 56320)>> \o DecodeToks(Tail(ts), 0)
         ELSE <<v % 65536>> \o DecodeToks(Tail(ts), 0)       \* an out-of-range value is read modulo 2^16
Init == cp \in CPs /\ where \in Positions /\ phase = "escape" /\ toks = <<>> /\ bytes = 0 /\ dec = <<>>
DoEscape == phase = "escape" /\ toks' = Escape(cp, where) /\ phase' = "write" /\ UNCHANGED <<cp, where, bytes, dec>>
DoWrite == phase = "write" /\ bytes' = Len(toks) /\ phase' = "read" /\ UNCHANGED <<cp, where, toks, dec>>
DoRead == phase = "read" /\ dec' = DecodeToks(toks, 0) /\ phase' = "done" /\ UNCHANGED <<cp, where, toks, bytes>>
Next == DoEscape \/ DoWrite \/ DoRead
Spec == Init /\ [][Next]_vars
RoundTrip == phase = "done" => dec = <<cp>>
Range == phase = "done" => \A j \in 1..Len(toks) : toks[j].t = "u" => (toks[j].v >= -32768 /\ toks[j].v <= 32767)
Fallback == phase = "done" => \A j \in 1..Len(toks) : toks[j].t = "u" => toks[j].fb = 1
Emit == phase = "done" => PrintT(ToJson([cp |-> cp, where |-> where, us |-> [j \in 1..Len(toks) |-> IF toks[j].t = "u" THEN toks[j].v ELSE 99999]]))
=============================================================================
