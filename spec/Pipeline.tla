------------------------------ MODULE Pipeline ------------------------------
(***************************************************************************)
(* Implementation-shaped specification of rtflite's single-section         *)
(* pipeline:  prepare -> paginate -> (per page) render.                    *)
(*                                                                         *)
(*   pick    one Pick step per configuration dimension (scenario space)    *)
(*   assign  PageBreakCalculator._assign_pages: one Place / Break per row  *)
(*   render  PageRenderer.render for every page (one Render step)          *)
(*   done    the event sequence `out` is what an RTF reader sees           *)
(*                                                                         *)
(* Deviation flags (constants) select between the design the properties    *)
(* describe (TRUE) and what the code under test does today (FALSE); each   *)
(* FALSE flag corresponds to an entry of /verif/known_findings.json.       *)
(***************************************************************************)
EXTENDS Naturals, Integers, Sequences, FiniteSets, TLC, Json, PipeProps, PipeCfg

CONSTANTS
  NSet, Heights, NrowSet, Strategies, LevelSet, HdrSet, FootSet, SrcSet, PlaceSet,
  TitleSet, SublineSet, NewPageSet, PbRowSet, PbHdrSet, DivSet,
  FontSet, SizeSet, PaperSet, PgHFSet, PFSet, PLSet, BFSet, BLSet, UTSet, UBSet,
  NDataSet, GPosSet, RelWSet, HdrWSet, UShapeSet, DupSet, HdrTupleSet,
  ReserveDefaultHeader,   \* TRUE: auto-populated header row is reserved
  BudgetContinuation,     \* TRUE: continuation headings at the top of a page are budgeted
  ChargeRenderedOnly,     \* TRUE: only headings that are rendered are charged, once
  BorderByPage,           \* TRUE: the closing border goes to the table row that really ends the page
  TopOverrideByPosition   \* TRUE (as implemented): with a per-column / per-cell border_top the first data row of a page
                          \* takes in display column k the k-th non-empty entry of border_top's first row (original
                          \* column positions) instead of rtf_body.border_first

VARIABLES cfg, d, phase, i, page, fill, pageOf, out
vars == <<cfg, d, phase, i, page, fill, pageOf, out>>

---------------------------------------------------------------------------
(* scenario space                                                          *)
---------------------------------------------------------------------------
Cfg0 == [strat |-> "plain", n |-> 0, h |-> <<>>, nlev |-> 1, chg |-> <<>>, schg |-> <<>>, div |-> "none",
         newpage |-> FALSE, pbrow |-> "column", pbhdr |-> TRUE, nrow |-> 1, hdr |-> "none",
         foot |-> "none", src |-> "none", ptitle |-> "all", pfoot |-> "last", psrc |-> "last",
         title |-> FALSE, subline |-> FALSE,
         font |-> 1, size |-> 9, paper |-> "letter", pghf |-> 0,
         pagefirst |-> "double", pagelast |-> "double", bodyfirst |-> "single", bodylast |-> "single",
         utop |-> "", ubot |-> "", ndata |-> 2, gpos |-> "first", relwk |-> "equal", hdrw |-> FALSE, ushape |-> "scalar",
         dup |-> FALSE, hdrtuple |-> FALSE]

\* change vectors: chg[r] \in 0..nlev is the outermost page_by level that changes at row r
ChgVecs(n, L) == IF n = 0 THEN {<<>>} ELSE {[r \in 1..n |-> IF r = 1 THEN 1 ELSE f[r]] : f \in [1..n -> 0..L]}
BoolVecs(n) == IF n = 0 THEN {<<>>} ELSE {[r \in 1..n |-> IF r = 1 THEN TRUE ELSE f[r]] : f \in [1..n -> BOOLEAN]}
ConstVec(n, v) == [r \in 1..n |-> v]

NDims == 36
Dim(k, c) ==
  CASE k = 1  -> <<"strat", Strategies>>
    [] k = 2  -> <<"n", NSet>>
    [] k = 3  -> <<"h", {}>>        \* vector dimension, picked row by row (ElemDom)
    [] k = 4  -> <<"nlev", IF HasPB(c) THEN LevelSet ELSE {1}>>
    [] k = 5  -> <<"chg", {}>>      \* vector dimension
    [] k = 6  -> <<"schg", {}>>     \* vector dimension
    [] k = 7  -> <<"div", IF HasPB(c) THEN DivSet
                          ELSE IF HasSub(c) /\ DivSet \cap {"cycle", "collide"} # {} THEN DivSet \cap {"none", "cycle", "collide"} ELSE {"none"}>>
    [] k = 8  -> <<"newpage", IF HasPB(c) THEN (IF c.div \in {"nullkey", "padkey"} THEN {TRUE} ELSE NewPageSet) ELSE {FALSE}>>
    [] k = 9  -> <<"pbrow", IF HasPB(c) /\ c.newpage /\ c.div \notin {"nullkey", "padkey"} THEN PbRowSet ELSE {"column"}>>
    [] k = 10 -> <<"pbhdr", PbHdrSet>>
    [] k = 11 -> <<"nrow", NrowSet>>
    [] k = 12 -> <<"hdr", HdrSet>>
    [] k = 13 -> <<"foot", FootSet>>
    [] k = 14 -> <<"src", SrcSet>>
    [] k = 15 -> <<"ptitle", PlaceSet>>
    [] k = 16 -> <<"pfoot", IF c.foot = "none" THEN {"last"} ELSE PlaceSet>>
    [] k = 17 -> <<"psrc", IF c.src = "none" THEN {"last"} ELSE PlaceSet>>
    [] k = 18 -> <<"title", TitleSet>>
    [] k = 19 -> <<"subline", SublineSet>>
    [] k = 20 -> <<"font", FontSet>>
    [] k = 21 -> <<"size", SizeSet>>
    [] k = 22 -> <<"paper", PaperSet>>
    [] k = 23 -> <<"pghf", PgHFSet>>
    [] k = 24 -> <<"pagefirst", PFSet>>
    [] k = 25 -> <<"pagelast", PLSet>>
    [] k = 26 -> <<"bodyfirst", BFSet>>
    [] k = 27 -> <<"bodylast", BLSet>>
    [] k = 28 -> <<"utop", UTSet>>
    [] k = 29 -> <<"ubot", UBSet>>
    [] k = 30 -> <<"ndata", NDataSet>>
    [] k = 31 -> <<"gpos", GPosSet>>
    [] k = 32 -> <<"relwk", RelWSet>>
    [] k = 33 -> <<"hdrw", IF c.hdr \in {"explicit", "explicit2"} THEN HdrWSet ELSE {FALSE}>>
    [] k = 34 -> <<"ushape", IF c.utop # "" \/ c.ubot # "" THEN UShapeSet ELSE {"scalar"}>>
    \* dup: the second data column (four times as wide as the first) repeats the first column's text of the NEXT row,
    \* where it needs one line: row heights are unchanged, but equal texts occur in columns of different width
    [] k = 35 -> <<"dup", IF c.ndata >= 2 THEN DupSet ELSE {FALSE}>>
    \* hdrtuple: the column-header rows (each with widths of its own) are handed over as a tuple instead of a list
    [] k = 36 -> <<"hdrtuple", IF c.hdr \in {"explicit", "explicit2"} /\ c.hdrw THEN HdrTupleSet ELSE {FALSE}>>

---------------------------------------------------------------------------
(* paginate: calculate_row_metadata + _assign_pages, as implemented         *)
---------------------------------------------------------------------------
PbStart(c, r) == HasPB(c) /\ (r = 1 \/ c.chg[r] > 0)
SubStart(c, r) == HasSub(c) /\ (r = 1 \/ c.schg[r])
Spanning(c) == HasPB(c) /\ (~c.newpage \/ c.pbrow # "column")
NonDivLevels(c, r) == Cardinality({v \in 1..c.nlev : PbText(c, v, r) # "-----"})
\* levels rendered at an inner boundary: from the change level inward (dividers skipped)
LevelsFrom(c, r, from) == Cardinality({v \in from..c.nlev : PbText(c, v, r) # "-----"})

PbRows(c, r) ==
  IF ~PbStart(c, r) \/ NonDivLevels(c, r) = 0 THEN 0
  ELSE IF ChargeRenderedOnly
       THEN (IF Spanning(c) THEN LevelsFrom(c, r, IF r = 1 THEN 1 ELSE c.chg[r]) ELSE 0)
       ELSE 1
SubRows(c, r) == IF SubStart(c, r) /\ ~ChargeRenderedOnly THEN 1 ELSE 0
Total(c, r) == c.h[r] + PbRows(c, r) + SubRows(c, r)
Additional(c) ==
    (IF HasSub(c) THEN 1 ELSE 0)
  + (CASE c.hdr = "none" -> 0 [] c.hdr = "default" -> (IF ReserveDefaultHeader THEN 1 ELSE 0)
       [] c.hdr = "explicit2" -> 2 [] OTHER -> 1)
  + (IF c.foot # "none" THEN 1 ELSE 0) + (IF c.src # "none" THEN 1 ELSE 0)
Avail(c) == IF c.nrow > Additional(c) THEN c.nrow - Additional(c) ELSE 1
Force(c, r) == r > 1 /\ (SubStart(c, r) \/ ((c.newpage \/ HasSub(c)) /\ PbStart(c, r)))
\* headings repeated at the top of a page that continues a group
ContHeads(c, r) == IF BudgetContinuation /\ Spanning(c) /\ ~PbStart(c, r) THEN NonDivLevels(c, r) ELSE 0
\* when a page starts inside a group all levels are rendered, not only the changed ones
TopHeads(c, r) == IF BudgetContinuation /\ ChargeRenderedOnly /\ Spanning(c) /\ PbStart(c, r) THEN NonDivLevels(c, r) - PbRows(c, r) ELSE 0

Init == /\ cfg = Cfg0 /\ d = 1 /\ phase = "pick"
        /\ i = 1 /\ page = 1 /\ fill = 0 /\ pageOf = <<>> /\ out = <<>>

\* vector dimensions (one value per row) are picked one row per step, so that -simulate can
\* draw long tables without enumerating the set of all vectors
IsVec(k) == k \in {3, 5, 6}
ElemDom(k, c) ==
  CASE k = 3 -> Heights
    [] k = 5 -> IF Len(c.chg) = 0 THEN {1} ELSE IF HasPB(c) THEN 0..c.nlev ELSE {0}
    [] k = 6 -> IF Len(c.schg) = 0 THEN {TRUE} ELSE IF HasSub(c) THEN BOOLEAN ELSE {FALSE}
Pick == /\ phase = "pick" /\ d <= NDims
        /\ IF IsVec(d)
           THEN LET f == Dim(d, cfg)[1] IN
                  IF Len(cfg[f]) >= cfg.n
                  THEN cfg' = cfg /\ d' = d + 1
                  ELSE \E v \in ElemDom(d, cfg) : cfg' = [cfg EXCEPT ![f] = Append(@, v)] /\ d' = d
           ELSE /\ \E v \in Dim(d, cfg)[2] : cfg' = [cfg EXCEPT ![Dim(d, cfg)[1]] = v]
                /\ d' = d + 1
        /\ UNCHANGED <<phase, i, page, fill, pageOf, out>>
StartAssign == /\ phase = "pick" /\ d > NDims /\ phase' = "assign"
               /\ UNCHANGED <<cfg, d, i, page, fill, pageOf, out>>

NeedBreak == (Force(cfg, i) \/ fill + Total(cfg, i) > Avail(cfg)) /\ fill > 0
Place == /\ phase = "assign" /\ i <= cfg.n /\ ~NeedBreak
         /\ fill' = fill + Total(cfg, i) + (IF fill = 0 THEN ContHeads(cfg, i) + TopHeads(cfg, i) ELSE 0)
         /\ pageOf' = Append(pageOf, page) /\ i' = i + 1
         /\ UNCHANGED <<cfg, d, phase, page, out>>
Break == /\ phase = "assign" /\ i <= cfg.n /\ NeedBreak
         /\ page' = page + 1 /\ fill' = Total(cfg, i) + ContHeads(cfg, i) + TopHeads(cfg, i)
         /\ pageOf' = Append(pageOf, page + 1) /\ i' = i + 1
         /\ UNCHANGED <<cfg, d, phase, out>>

---------------------------------------------------------------------------
(* render: PageRenderer.render, as implemented                             *)
---------------------------------------------------------------------------
P == IF cfg.n = 0 THEN 1 ELSE pageOf[cfg.n]
RowsOf(p) == SelectSeq([k \in 1..cfg.n |-> k], LAMBDA k : pageOf[k] = p)
Ev(k, p, r, lv, val, wt) == [k |-> k, p |-> p, r |-> r, lv |-> lv, val |-> val, wt |-> wt, est |-> wt, tag |-> r,
                            top |-> <<"">>, bot |-> <<"">>, lft |-> <<"single">>, rgt |-> <<"single">>]
B(e, t, b) == [e EXCEPT !.top = <<t>>, !.bot = <<b>>]
BV(e, t, b) == [e EXCEPT !.top = t, !.bot = b]        \* per displayed column

\* ---- borders: PageFeatureProcessor._apply_pagination_borders, as implemented ----
FootOn(c, p) == c.foot # "none" /\ Show(c.pfoot, p, P)
SrcOn(c, p) == c.src # "none" /\ Show(c.psrc, p, P)
FootTblLast(c) == c.foot = "table" /\ c.pfoot \in {"last", "all"}
SrcTblLast(c) == c.src = "table" /\ c.psrc \in {"last", "all"}
\* which component receives the closing border (_apply_footnote_source_borders)
Target(c, p) == IF SrcOn(c, p) /\ c.src = "table" THEN "src"
                ELSE IF FootOn(c, p) /\ c.foot = "table" THEN "foot" ELSE "nobody"
TableOn(c, p) == (FootOn(c, p) /\ c.foot = "table") \/ (SrcOn(c, p) /\ c.src = "table")
Bottom(c, p) ==
  IF c.n = 0 THEN <<"nobody", "">>     \* empty table: the border pass returns before touching anything
  ELSE IF BorderByPage
  THEN <<IF TableOn(c, p) THEN Target(c, p) ELSE "data", IF p < P THEN c.bodylast ELSE c.pagelast>>
  ELSE IF p < P
       THEN IF ~(FootOn(c, p) \/ SrcOn(c, p)) THEN <<"data", c.bodylast>> ELSE <<Target(c, p), c.bodylast>>
       ELSE IF ~(FootTblLast(c) \/ SrcTblLast(c)) THEN <<"data", c.pagelast>> ELSE <<Target(c, p), c.pagelast>>
\* top and bottom edge of data row r, one entry per displayed column
DataTopV(c, p, r, first) ==
  IF ~first THEN UVec(c, c.utop, r)
  ELSE IF p = 1 /\ c.hdr = "none" THEN StyleVec(c, c.pagefirst)
  ELSE [k \in 1..Len(KeptIdx(c)) |->
          IF TopOverrideByPosition /\ c.ushape # "scalar" /\ c.utop # "" /\ RawWidth(c) > 1 /\ k <= RawWidth(c) /\ UPat(c, c.utop, 1, k) # ""
          THEN UPat(c, c.utop, 1, k) ELSE c.bodyfirst]
DataBotV(c, p, r, last) == IF last /\ Bottom(c, p)[1] = "data" THEN StyleVec(c, Bottom(c, p)[2]) ELSE UVec(c, c.ubot, r)

RECURSIVE HeadEvents(_, _, _, _)
\* spanning rows for levels from..nlev of row r (dividers skipped)
HeadEvents(c, p, r, from) ==
  IF from > c.nlev THEN <<>>
  ELSE (IF PbText(c, from, r) = "-----" THEN <<>> ELSE << B(Ev("head", p, 0, from, PbText(c, from, r), 1), c.utop, c.ubot) >>)
       \o HeadEvents(c, p, r, from + 1)
RECURSIVE Body(_, _, _, _)
Body(c, p, rows, first) ==
  IF rows = <<>> THEN <<>>
  ELSE LET r == Head(rows)
           heads == IF ~Spanning(c) THEN <<>>
                    ELSE IF first THEN HeadEvents(c, p, r, 1)
                    ELSE IF c.chg[r] > 0 THEN HeadEvents(c, p, r, c.chg[r]) ELSE <<>>
       IN heads \o << BV(Ev("data", p, r, 0, "", c.h[r]), DataTopV(c, p, r, first), DataBotV(c, p, r, Len(rows) = 1)) >>
          \o Body(c, p, Tail(rows), FALSE)
NHdr(c) == CASE c.hdr = "none" -> 0 [] c.hdr = "explicit2" -> 2 [] OTHER -> 1
Blocks(c, p) ==
     (IF p > 1 THEN << Ev("break", p, 0, 0, "", 0) >> ELSE <<>>)
  \o (IF c.title /\ Show(c.ptitle, p, P) THEN << Ev("title", p, 0, 0, "", 0) >> ELSE <<>>)
  \o (IF c.subline /\ Show(c.ptitle, p, P) THEN << Ev("subline", p, 0, 0, "", 0) >> ELSE <<>>)
  \o (IF HasSub(c) /\ RowsOf(p) # <<>> THEN << Ev("subhead", p, 0, 0, SubText(c, Head(RowsOf(p))), 1) >> ELSE <<>>)
  \o (IF NHdr(c) > 0 /\ (p = 1 \/ c.pbhdr)
      THEN [x \in 1..NHdr(c) |-> B(Ev("colhdr", p, 0, x, "", 1), IF p = 1 /\ x = 1 THEN c.pagefirst ELSE "single", "")] ELSE <<>>)
  \o Body(c, p, RowsOf(p), TRUE)
  \o (IF c.foot # "none" /\ Show(c.pfoot, p, P)
      THEN << IF c.foot = "table" THEN B(Ev("foot_t", p, 0, 0, "", 1), "single", IF Bottom(c, p)[1] = "foot" THEN Bottom(c, p)[2] ELSE "")
                                  ELSE Ev("foot_p", p, 0, 0, "", 0) >> ELSE <<>>)
  \o (IF c.src # "none" /\ Show(c.psrc, p, P)
      THEN << IF c.src = "table" THEN B(Ev("src_t", p, 0, 0, "", 1), "single", IF Bottom(c, p)[1] = "src" THEN Bottom(c, p)[2] ELSE "")
                                 ELSE Ev("src_p", p, 0, 0, "", 0) >> ELSE <<>>)
RECURSIVE Flatten(_, _)
Flatten(c, p) == IF p > P THEN <<>> ELSE Blocks(c, p) \o Flatten(c, p + 1)

Render == /\ phase = "assign" /\ i > cfg.n
          /\ out' = Flatten(cfg, 1) /\ phase' = "done"
          /\ UNCHANGED <<cfg, d, i, page, fill, pageOf>>

Next == Pick \/ StartAssign \/ Place \/ Break \/ Render
Spec == Init /\ [][Next]_vars

---------------------------------------------------------------------------
(* properties of the model                                                 *)
---------------------------------------------------------------------------
DC == Derive(cfg) @@ [prefixes |-> <<>>, uleft |-> "single", uright |-> "single"]
AllPos(Cl(_, _, _)) == phase = "done" => \A l \in 1..(Len(out) + 1) : Cl(DC, out, l)

M_C02_Order == AllPos(C02_Order)
M_C03_Budget == AllPos(C03_Budget)
M_C03_BudgetModuloKnown == AllPos(C03_BudgetModuloKnown)
M_C04_NonEmpty == AllPos(C04_NonEmpty)
M_C04_Contiguous == AllPos(C04_Contiguous)
M_C04_Forced == AllPos(C04_Forced)
M_C04_OnlyWhenRequired == AllPos(C04_OnlyWhenRequired)
M_C04_OnlyWhenRequiredModuloKnown == AllPos(C04_OnlyWhenRequiredModuloKnown)
M_C04_NoMix == AllPos(C04_NoMix)
M_C05_Heads == AllPos(C05_Heads)
M_C05_NotStranded == AllPos(C05_NotStranded)
M_C05_NoHeadsWhenColumn == AllPos(C05_NoHeadsWhenColumn)
M_C05_Subline == AllPos(C05_Subline)
M_C05_DividerKeepsRow == AllPos(C05_DividerKeepsRow)
M_C06_Order == AllPos(C06_Order)
M_C06_Placement == AllPos(C06_Placement)
M_C06_ColHdr == AllPos(C06_ColHdr)
M_C07_DocTop == AllPos(C07_DocTop)
M_C07_DocBottom == AllPos(C07_DocBottom)
M_C07_PageBottom == AllPos(C07_PageBottom)
M_C07_DataTop == AllPos(C07_DataTop)
M_C07_DataTopModuloKnown == AllPos(C07_DataTopModuloKnown)
M_C07_Interior == AllPos(C07_Interior)

\* online algorithm: the page of a row never depends on later rows (model form of PrefixStable)
PagesMonotone == [][pageOf' # pageOf => (Len(pageOf') = Len(pageOf) + 1 /\ SubSeq(pageOf', 1, Len(pageOf)) = pageOf)]_vars
TypeOK == /\ phase \in {"pick", "assign", "done"} /\ page \in Nat /\ fill \in Nat

\* scenario emission (generator configurations): one JSON line per terminal state
Emit == phase = "done" => PrintT(ToJson([cfg |-> cfg, out |-> out]))
=============================================================================
