----------------------------- MODULE Broadcast -----------------------------
(***************************************************************************)
(* BroadcastValue (src/rtflite/attributes.py): the recycling algebra every  *)
(* table attribute goes through ("a scalar applies to every cell, a         *)
(* per-column vector to its column, a full matrix cell by cell", C09).      *)
(*                                                                         *)
(* The stored value is a grid of rk x ck cells.  A caller's value becomes   *)
(* that grid by _to_nested_list:                                            *)
(*   scalar          -> 1 x 1                                               *)
(*   list of k       -> 1 x k   (one entry per column)                      *)
(*   tuple of k      -> k x 1   (one entry per row)                         *)
(*   list of lists   -> as given                                            *)
(* With dimension = (R, C):                                                 *)
(*   Iloc(i, j)      value[i mod rk][j mod ck]                              *)
(*   ToList          the R x C grid of Iloc values (a fresh grid)           *)
(*   UpdateCell / UpdateRow / UpdateColumn   expand to R x C, then write    *)
(* One action per method call; the conformance harness steps the real      *)
(* object through the same calls and compares result and stored value       *)
(* after every step.                                                        *)
(***************************************************************************)
EXTENDS Naturals, Integers, Sequences, FiniteSets, TLC, Json
CONSTANTS Forms, KSet, RSet, CSet, MaxOps

VARIABLES sc, d, g, ops, todo, hist
vars == <<sc, d, g, ops, todo, hist>>
\* sc = [form, rk, ck, R, C]; g = stored grid; ops = the call sequence (picked), todo = calls not yet executed
\* hist = sequence of [op, res, val] after every executed call

Cell(i, j) == 10 * i + j
Grid0(s) == [i \in 1..s.rk |-> [j \in 1..s.ck |-> Cell(i, j)]]
Rk(x) == Len(x)
Ck(x) == Len(x[1])
At(x, i, j) == x[(i % Rk(x)) + 1][(j % Ck(x)) + 1]          \* 0-based indices, as in the code
Expand(x, R, C) == [i \in 1..R |-> [j \in 1..C |-> At(x, i - 1, j - 1)]]

Sc0 == [form |-> "scalar", rk |-> 1, ck |-> 1, R |-> 1, C |-> 1]
Init == sc = Sc0 /\ d = 1 /\ g = <<>> /\ ops = <<>> /\ todo = <<>> /\ hist = <<>>
PickShape ==
  /\ d = 1
  /\ \E f \in Forms, k1 \in KSet, k2 \in KSet, R \in RSet, C \in CSet :
       sc' = [form |-> f, rk |-> (CASE f = "scalar" -> 1 [] f = "list" -> 1 [] f = "tuple" -> k1 [] OTHER -> k1),
              ck |-> (CASE f = "scalar" -> 1 [] f = "list" -> k2 [] f = "tuple" -> 1 [] OTHER -> k2), R |-> R, C |-> C]
  /\ d' = 2 /\ UNCHANGED <<g, ops, todo, hist>>
\* calls: indices for Iloc range a little beyond the dimension (recycling); updates stay inside it
CallSet == {<<"to_list", 0, 0>>}
           \cup {<<"iloc", i, j>> : i \in 0..(sc.R + 1), j \in 0..(sc.C + 1)}
           \cup (IF sc.R >= 1 THEN {<<"update_cell", i, j>> : i \in {0, sc.R - 1}, j \in {0, sc.C - 1}}
                                   \cup {<<"update_row", i, 0>> : i \in {0, sc.R - 1}}
                                   \cup {<<"update_column", 0, j>> : j \in {0, sc.C - 1}}
                 ELSE {})
PickOp == /\ d = 2 /\ Len(ops) < MaxOps
          /\ \E c \in CallSet : ops' = Append(ops, c)
          /\ UNCHANGED <<sc, d, g, todo, hist>>
Start == /\ d = 2 /\ Len(ops) >= 1 /\ d' = 3 /\ g' = Grid0(sc) /\ todo' = ops /\ UNCHANGED <<sc, ops, hist>>

Exec ==
  /\ d = 3 /\ todo # <<>>
  /\ LET c == Head(todo)
         full == Expand(g, sc.R, sc.C)
     IN CASE c[1] = "iloc" -> /\ g' = g /\ hist' = Append(hist, [op |-> c, res |-> <<<<At(g, c[2], c[3])>>>>, val |-> g])
          [] c[1] = "to_list" -> /\ g' = g /\ hist' = Append(hist, [op |-> c, res |-> full, val |-> g])
          [] c[1] = "update_cell" ->
               LET n == [full EXCEPT ![c[2] + 1][c[3] + 1] = 99] IN g' = n /\ hist' = Append(hist, [op |-> c, res |-> n, val |-> n])
          [] c[1] = "update_row" ->
               LET n == [full EXCEPT ![c[2] + 1] = [j \in 1..sc.C |-> 90 + j]] IN g' = n /\ hist' = Append(hist, [op |-> c, res |-> n, val |-> n])
          [] c[1] = "update_column" ->
               LET n == [i \in 1..sc.R |-> [full[i] EXCEPT ![c[3] + 1] = 80 + i]] IN g' = n /\ hist' = Append(hist, [op |-> c, res |-> n, val |-> n])
  /\ todo' = Tail(todo) /\ UNCHANGED <<sc, d, ops>>
Next == PickShape \/ PickOp \/ Start \/ Exec
Spec == Init /\ [][Next]_vars

Done == d = 3 /\ todo = <<>>
\* ---- the algebra's laws ----
\* to_list is the grid of iloc values
ToListIsIloc == d = 3 => \A i \in 1..sc.R, j \in 1..sc.C : Expand(g, sc.R, sc.C)[i][j] = At(g, i - 1, j - 1)
\* recycling: a cell beyond the stored grid equals the cell it wraps to
Recycles == d = 3 => \A i \in 0..(sc.R + 1), j \in 0..(sc.C + 1) : At(g, i, j) = At(g, i % Rk(g), j % Ck(g))
\* an update writes exactly what it names: every other cell keeps the value it had in the expansion before
UpdateIsLocal ==
  d = 3 => \A n \in 1..Len(hist) :
     LET h == hist[n]
         before == IF n = 1 THEN Grid0(sc) ELSE hist[n - 1].val
         full == Expand(before, sc.R, sc.C)
     IN h.op[1] \in {"update_cell", "update_row", "update_column"} =>
          \A i \in 1..sc.R, j \in 1..sc.C :
             LET touched == CASE h.op[1] = "update_cell" -> (i = h.op[2] + 1 /\ j = h.op[3] + 1)
                              [] h.op[1] = "update_row" -> i = h.op[2] + 1
                              [] OTHER -> j = h.op[3] + 1
             IN ~touched => h.val[i][j] = full[i][j]
\* after any update the stored grid has exactly the dimension
UpdateExpands == d = 3 => \A n \in 1..Len(hist) : hist[n].op[1] \in {"update_cell", "update_row", "update_column"} =>
                    (Len(hist[n].val) = sc.R /\ \A i \in 1..sc.R : Len(hist[n].val[i]) = sc.C)
TypeOK == d \in 1..3
Emit == Done => PrintT(ToJson([sc |-> sc, ops |-> ops, hist |-> hist]))
=============================================================================
