------------------------------ MODULE StrWidth ------------------------------
(***************************************************************************)
(* C20: get_string_width as an append-only measurement history.              *)
(*   Start(font, size)   Append(class)*   Measure(unit, dpi)   |  Reject     *)
(* The model generates history skeletons (font, size index, character        *)
(* classes, unit, dpi index, or an unsupported font/unit); the harness        *)
(* concretises them and logs every width exactly, as an integer number of      *)
(* 1/64 px.  The abstract width model (every character advances by at least 0) *)
(* is enough to state the history properties checked on the model.            *)
(***************************************************************************)
EXTENDS Naturals, Integers, Sequences, FiniteSets, TLC, Json
CONSTANTS Fonts, SizeIdx, Classes, MaxLen, Units, DpiIdx, BadKinds, Modes,
          MinHomog     \* a homogeneous text has at least this many units before it may end (simulation ends a text at a random step)
VARIABLES h, phase
vars == <<h, phase>>
H0 == [font |-> 1, size |-> 1, txt |-> <<>>, unit |-> "in", dpi |-> 1, bad |-> "none", mode |-> "mixed"]
Init == h = H0 /\ phase = "font"
\* mode "mixed": every character from any class.  mode "homog": a homogeneous text (every character from the class of the
\* first one, or "rep" = the previous character again) optionally closed by ONE character of any class (AppendTail) - the shape
\* on which a measuring shortcut for all-digit / all-ASCII / all-blank texts would differ from its extension.
Start == /\ phase = "font" /\ \E f \in Fonts, s \in SizeIdx, m \in Modes : h' = [h EXCEPT !.font = f, !.size = s, !.mode = m] /\ phase' = "append"
AppendChar == /\ phase = "append" /\ Len(h.txt) < MaxLen
              /\ \E c \in Classes : /\ IF Len(h.txt) = 0 THEN c # "rep"
                                       ELSE IF h.mode = "mixed" THEN TRUE ELSE c \in {h.txt[1], "rep"}
                                    /\ h' = [h EXCEPT !.txt = Append(@, c)]
              /\ UNCHANGED phase
MayEnd == h.mode = "mixed" \/ Len(h.txt) >= MinHomog \/ Len(h.txt) >= MaxLen
AppendTail == /\ phase = "append" /\ h.mode = "homog" /\ Len(h.txt) >= 1 /\ Len(h.txt) <= MaxLen /\ MayEnd
        /\ \E c \in Classes \ {"rep"} : h' = [h EXCEPT !.txt = Append(@, c)]
        /\ phase' = "tail"
\* the text ends (one step, so that a simulated history ends with probability 1 / (number of classes + 1) per step), then
\* unit and dpi are chosen
Stop == /\ phase \in {"append", "tail"} /\ (phase = "tail" \/ MayEnd) /\ phase' = "stop" /\ UNCHANGED h
Measure == /\ phase = "stop" /\ \E u \in Units, dd \in DpiIdx : h' = [h EXCEPT !.unit = u, !.dpi = dd] /\ phase' = "done"
Reject == /\ phase = "append" /\ Len(h.txt) <= 1 /\ \E b \in BadKinds : h' = [h EXCEPT !.bad = b] /\ phase' = "done"
Next == Start \/ AppendChar \/ AppendTail \/ Stop \/ Measure \/ Reject
Spec == Init /\ [][Next]_vars
AppendOnly == [][phase = "append" /\ phase' \in {"append", "tail"} => (Len(h'.txt) = Len(h.txt) + 1 /\ SubSeq(h'.txt, 1, Len(h.txt)) = h.txt)]_vars
Emit == phase = "done" => PrintT(ToJson(h))
=============================================================================
