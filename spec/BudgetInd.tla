----------------------------- MODULE BudgetInd -----------------------------
(***************************************************************************)
(* The row budget of C03 as an inductive invariant over unbounded          *)
(* integers (checked with Apalache; TLC covers the implementation-shaped   *)
(* Pipeline.tla for bounded tables).  The intended pagination design:      *)
(* a data row of height h arrives with g heading rows that must precede it  *)
(* (group start) and, if it opens a page, c continuation headings; it is    *)
(* placed on the current page if everything fits, otherwise a new page is   *)
(* opened for it.  avail = nrow minus the rows reserved for column headers  *)
(* and table-rendered footnote/source.                                      *)
(*   Budget:  the page never holds more than avail rows, except when it     *)
(*            holds a single data row (which cannot fit by itself).         *)
(* IndInv is inductive: Init => IndInv and IndInv /\ Next => IndInv'.       *)
(***************************************************************************)
EXTENDS Integers

VARIABLES
  \* @type: Int;
  avail,
  \* @type: Int;
  fill,
  \* @type: Int;
  data

Init == avail \in Nat /\ avail >= 1 /\ fill = 0 /\ data = 0

\* @type: (Int, Int, Int) => Bool;
Arrive(h, g, c) ==
  /\ h >= 1 /\ g >= 0 /\ c >= g
  /\ IF data > 0 /\ fill + g + h <= avail
     THEN fill' = fill + g + h /\ data' = data + 1          \* stays on the current page
     ELSE fill' = c + h /\ data' = 1                        \* opens a page: all current headings are shown and charged
  /\ UNCHANGED avail

Next == \E h \in Nat, g \in Nat, c \in Nat : Arrive(h, g, c)

Budget == fill <= avail \/ data = 1
TypeOK == avail \in Nat /\ avail >= 1 /\ fill \in Nat /\ data \in Nat
IndInv == TypeOK /\ Budget /\ (data = 0 => fill = 0)
IndInit == IndInv
\* non-vacuity control: without the single-row exception the rule is false (a row taller than a page)
NoException == fill <= avail
=============================================================================
