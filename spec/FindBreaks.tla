----------------------------- MODULE FindBreaks -----------------------------
(***************************************************************************)
(* PageBreakCalculator.find_page_breaks (src/rtflite/pagination/core.py):  *)
(* the public, r2rtf-compatible greedy page splitter.  One action per loop  *)
(* iteration of the code:                                                   *)
(*   Overflow   the row does not fit: close the page before it              *)
(*   Fits       the row is added to the current page                        *)
(*   GroupBreak page_by + new_page: close the page after the last row of a  *)
(*              group                                                       *)
(*   Final      the last page                                               *)
(* A scenario is a vector of row heights, a vector of group-change flags,   *)
(* the number of rows available per page and the new_page switch; pages     *)
(* are pairs <<first, last>> of 0-based row numbers, as the code returns    *)
(* them.  The conformance harness replays every behaviour on the real       *)
(* method (rows get their height from text width) and compares the result.  *)
(***************************************************************************)
EXTENDS Naturals, Integers, Sequences, FiniteSets, TLC, Json
CONSTANTS NSet, Heights, AvailSet, BoolSet
VARIABLES sc, d, k, idx, start, cur, pages, phase, half
vars == <<sc, d, k, idx, start, cur, pages, phase, half>>
\* half: TRUE when the overflow part of the iteration for row idx has been done and the group part is next

Sc0 == [n |-> 0, h |-> <<>>, chg |-> <<>>, avail |-> 1, newpage |-> FALSE]
Init == sc = Sc0 /\ d = 1 /\ k = 1 /\ idx = 0 /\ start = 0 /\ cur = 0 /\ pages = <<>> /\ phase = "pick" /\ half = FALSE
Pick ==
  /\ phase = "pick"
  /\ CASE d = 1 -> (\E n \in NSet : sc' = [sc EXCEPT !.n = n]) /\ d' = 2 /\ k' = 1
       [] d = 2 -> IF k > sc.n THEN d' = 3 /\ k' = 1 /\ sc' = sc
                   ELSE (\E v \in Heights : sc' = [sc EXCEPT !.h = Append(@, v)]) /\ k' = k + 1 /\ d' = d
       [] d = 3 -> IF k > sc.n THEN d' = 4 /\ k' = 1 /\ sc' = sc
                   ELSE (\E v \in (IF k = 1 THEN {TRUE} ELSE BoolSet) : sc' = [sc EXCEPT !.chg = Append(@, v)]) /\ k' = k + 1 /\ d' = d
       [] d = 4 -> (\E a \in AvailSet : sc' = [sc EXCEPT !.avail = a]) /\ d' = 5 /\ k' = k
       [] d = 5 -> (\E b \in BoolSet : sc' = [sc EXCEPT !.newpage = b]) /\ d' = 6 /\ k' = k
       [] OTHER -> FALSE
  /\ UNCHANGED <<idx, start, cur, pages, phase, half>>
StartLoop == /\ phase = "pick" /\ d = 6 /\ phase' = (IF sc.n = 0 THEN "done" ELSE "loop")
             /\ UNCHANGED <<sc, d, k, idx, start, cur, pages, half>>
H(i) == sc.h[i + 1]                       \* 0-based row index
Overflow == /\ phase = "loop" /\ idx < sc.n /\ ~half /\ cur + H(idx) > sc.avail
            /\ pages' = (IF start < idx THEN Append(pages, <<start, idx - 1>>) ELSE pages)
            /\ start' = idx /\ cur' = H(idx) /\ half' = TRUE
            /\ UNCHANGED <<sc, d, k, idx, phase>>
Fits == /\ phase = "loop" /\ idx < sc.n /\ ~half /\ cur + H(idx) <= sc.avail
        /\ cur' = cur + H(idx) /\ half' = TRUE
        /\ UNCHANGED <<sc, d, k, idx, start, pages, phase>>
GroupEnds(i) == sc.newpage /\ i < sc.n - 1 /\ sc.chg[i + 2]      \* the next row starts another group
GroupBreak == /\ phase = "loop" /\ half /\ GroupEnds(idx)
              /\ pages' = Append(pages, <<start, idx>>) /\ start' = idx + 1 /\ cur' = 0
              /\ idx' = idx + 1 /\ half' = FALSE /\ UNCHANGED <<sc, d, k, phase>>
NoGroupBreak == /\ phase = "loop" /\ half /\ ~GroupEnds(idx)
                /\ idx' = idx + 1 /\ half' = FALSE /\ UNCHANGED <<sc, d, k, start, cur, pages, phase>>
Final == /\ phase = "loop" /\ idx = sc.n /\ ~half
         /\ pages' = (IF start < sc.n THEN Append(pages, <<start, sc.n - 1>>) ELSE pages)
         /\ phase' = "done" /\ UNCHANGED <<sc, d, k, idx, start, cur, half>>
Next == Pick \/ StartLoop \/ Overflow \/ Fits \/ GroupBreak \/ NoGroupBreak \/ Final
Spec == Init /\ [][Next]_vars

Done == phase = "done"
RECURSIVE Sum(_, _)
Sum(a, b) == IF a > b THEN 0 ELSE H(a) + Sum(a + 1, b)
\* the pages tile 0..n-1 in order, each non-empty
Tiling == Done => /\ (sc.n = 0 <=> pages = <<>>)
                  /\ (sc.n > 0 => (pages[1][1] = 0 /\ pages[Len(pages)][2] = sc.n - 1))
                  /\ \A j \in 1..Len(pages) : pages[j][1] <= pages[j][2]
                  /\ \A j \in 1..(Len(pages) - 1) : pages[j + 1][1] = pages[j][2] + 1
\* no page exceeds the available rows, except a page holding one row that is too tall by itself
Budget == Done => \A j \in 1..Len(pages) : Sum(pages[j][1], pages[j][2]) <= sc.avail \/ pages[j][1] = pages[j][2]
\* with new_page no page mixes two groups
NoMix == (Done /\ sc.newpage) => \A j \in 1..Len(pages) : \A r \in (pages[j][1] + 1)..pages[j][2] : ~sc.chg[r + 1]
\* a break falls between two rows only if the next row would not fit, or a group ends
OnlyWhenRequired == Done => \A j \in 1..(Len(pages) - 1) :
                       \/ Sum(pages[j][1], pages[j][2]) + H(pages[j + 1][1]) > sc.avail
                       \/ (sc.newpage /\ sc.chg[pages[j + 1][1] + 1])
TypeOK == phase \in {"pick", "loop", "done"}
Emit == Done => PrintT(ToJson([sc |-> sc, pages |-> pages]))
=============================================================================
