----------------------------- MODULE PipeProps -----------------------------
(***************************************************************************)
(* Property predicates of the rendering pipeline (C02..C08), written once  *)
(* over a scenario record c and an event sequence E (the block sequence of *)
(* one encoded document, produced either by the model in Pipeline.tla or   *)
(* by the independent RTF reader from the real output).                    *)
(*                                                                         *)
(* Every clause has the form  Name(c, E, l)  "the clause holds at position *)
(* l of the trace"; position Len(E)+1 is the end of the document.  The     *)
(* model checks \A l; the trace specification evaluates position l when it *)
(* consumes event l, so every clause is evaluated in every state.          *)
(*                                                                         *)
(* Event record fields (all present in every event):                       *)
(*   k   kind: "break" "title" "subline" "subhead" "colhdr" "head" "data"  *)
(*             "foot_t" "foot_p" "src_t" "src_p" "other"                   *)
(*   p   page number (1-based)        r   data row index (1-based) or 0    *)
(*   lv  heading level or 0           val heading value ("" if none)       *)
(*   wt  lines this block needs at least (lower bound), 0 for break        *)
(***************************************************************************)
EXTENDS Naturals, Integers, Sequences, FiniteSets

Max(a, b) == IF a > b THEN a ELSE b
Min(a, b) == IF a < b THEN a ELSE b

IsTableRow(e) == e.k \in {"colhdr", "head", "data", "foot_t", "src_t"}
Counts(e)     == e.k \in {"colhdr", "head", "subhead", "data", "foot_t", "src_t"}

Idx(E) == 1..Len(E)
PageCount(E) == IF Len(E) = 0 THEN 1 ELSE E[Len(E)].p
DataIdx(E) == {j \in Idx(E) : E[j].k = "data"}
OnPage(E, p) == {j \in Idx(E) : E[j].p = p}
DataOn(E, p) == {j \in DataIdx(E) : E[j].p = p}

RECURSIVE SumW(_, _, _)
SumW(E, S, acc) == IF S = {} THEN acc
                   ELSE LET j == CHOOSE x \in S : TRUE IN SumW(E, S \ {j}, acc + E[j].wt)
Used(E, p) == SumW(E, {j \in OnPage(E, p) : Counts(E[j])}, 0)
\* the same sum with every data row at the height the font-unaware estimator gives it
RECURSIVE SumE(_, _, _)
SumE(E, S, acc) == IF S = {} THEN acc
                   ELSE LET j == CHOOSE x \in S : TRUE IN SumE(E, S \ {j}, acc + E[j].est)
UsedEst(E, p) == SumE(E, {j \in OnPage(E, p) : Counts(E[j])}, 0)

Show(opt, p, P) == opt = "all" \/ (opt = "first" /\ p = 1) \/ (opt = "last" /\ p = P)

\* previous / next data event positions
PrevData(E, l) == LET S == {j \in DataIdx(E) : j < l} IN IF S = {} THEN 0 ELSE CHOOSE j \in S : \A x \in S : x <= j
NextData(E, l) == LET S == {j \in DataIdx(E) : j > l} IN IF S = {} THEN 0 ELSE CHOOSE j \in S : \A x \in S : x >= j

---------------------------------------------------------------------------
(* C02 -- no data cell lost, duplicated, reordered or altered              *)
---------------------------------------------------------------------------
\* c.rows[r] = display texts of the kept columns of row r (built by the harness from its
\* own input lists); E[l].tx = texts read back.
C02_Order(c, E, l) ==
  IF l <= Len(E)
  THEN E[l].k = "data" => E[l].r = Cardinality({j \in DataIdx(E) : j <= l})
  ELSE Cardinality(DataIdx(E)) = c.n
C02_Text(c, E, l) ==
  (l <= Len(E) /\ E[l].k = "data" /\ E[l].r \in 1..c.n) => E[l].tx = c.rows[E[l].r]
C02_Tag(c, E, l) ==
  (l <= Len(E) /\ E[l].k = "data" /\ E[l].tag # 0) => E[l].tag = E[l].r

---------------------------------------------------------------------------
(* C03 -- no page exceeds nrow (single unsplittable data row excepted)     *)
---------------------------------------------------------------------------
PageFull(c, E, p) == Used(E, p) <= c.nrow \/ Cardinality(DataOn(E, p)) <= 1
\* evaluated when the last event of a page is consumed
LastOfPage(E, l) == l <= Len(E) /\ (l = Len(E) \/ E[l + 1].p # E[l].p)
C03_Budget(c, E, l) == LastOfPage(E, l) => PageFull(c, E, E[l].p)

\* -- the same budget with the rows of the recorded findings added back (R3) --
DefaultHdrRows(c, E, p) == IF c.hdr = "default" THEN Cardinality({j \in OnPage(E, p) : E[j].k = "colhdr"}) ELSE 0
\* headings at the top of a continuation page (before its first data row) whose group
\* already started on an earlier page
ContinuationHeads(c, E, p) ==
  LET first == {j \in DataOn(E, p) : \A x \in DataOn(E, p) : j <= x}
  IN IF first = {} \/ p = 1 THEN 0
     ELSE LET f == CHOOSE j \in first : TRUE
              r == E[f].r
          IN IF r > 1 /\ r <= c.n /\ c.grp[r] = c.grp[r - 1]
             THEN Cardinality({j \in OnPage(E, p) : j < f /\ E[j].k \in {"head"}})
             ELSE 0
\* nested headings: the estimator charges one row per group start however many levels change
ExtraLevelHeads(c, E, p) ==
  LET H == {j \in OnPage(E, p) : E[j].k = "head"}
      Starts == {j \in H : j = 1 \/ E[j - 1].k # "head"}
  IN Cardinality(H) - Cardinality(Starts)
C03_BudgetModuloKnown(c, E, l) ==
  LastOfPage(E, l) =>
    LET p == E[l].p IN
      \/ Cardinality(DataOn(E, p)) <= 1
      \/ UsedEst(E, p) - DefaultHdrRows(c, E, p) - ContinuationHeads(c, E, p) - ExtraLevelHeads(c, E, p)
           <= c.nrow

---------------------------------------------------------------------------
(* C04 -- breaks only when required and always when required               *)
---------------------------------------------------------------------------
C04_NonEmpty(c, E, l) ==
  \* every page of a non-empty table holds at least one data row
  (LastOfPage(E, l) /\ c.n > 0) => DataOn(E, E[l].p) # {}
C04_Contiguous(c, E, l) ==
  (l <= Len(E) /\ E[l].k = "data") =>
     LET q == PrevData(E, l) IN
       IF q = 0 THEN E[l].r = 1 /\ E[l].p = 1
       ELSE E[l].r = E[q].r + 1 /\ E[l].p \in {E[q].p, E[q].p + 1}
\* grouping rule: a change of subline value, or of page_by value when new_page, starts a page
ForceAt(c, r) == r > 1 /\ r <= c.n /\
   ( (c.hassub /\ c.sub[r] # c.sub[r - 1]) \/ (c.haspb /\ c.effnp /\ c.grp[r] # c.grp[r - 1]) )
C04_Forced(c, E, l) ==
  (l <= Len(E) /\ E[l].k = "data" /\ E[l].r \in 2..c.n /\ ForceAt(c, E[l].r)) =>
     LET q == PrevData(E, l) IN q # 0 /\ E[l].p > E[q].p
\* "only when required": a break before row r is justified if it is forced, or if the row
\* with the headings it brings does not fit under the MOST generous reservation (all
\* configured repeating components reserved, DESIGN.md section 5/C04).
ReservedAll(c) == c.nhdr + (IF c.foot # "none" THEN 1 ELSE 0) + (IF c.src # "none" THEN 1 ELSE 0)
                  + (IF c.hassub THEN 1 ELSE 0)
\* rows already used by the data part of page p before position l (headings + data)
DataPartUsed(E, p, l) == SumW(E, {j \in OnPage(E, p) : j < l /\ E[j].k \in {"head", "data"}}, 0)
ChangeLevel(c, r) ==   \* outermost level at which row r differs from row r-1, 0 if none
  LET D == {v \in 1..c.nlev : c.pb[r][v] # c.pb[r - 1][v]}
  IN IF D = {} THEN 0 ELSE CHOOSE v \in D : \A x \in D : v <= x
HeadsBrought(c, r) ==   \* headings row r brings when placed after row r-1 on the same page
  IF c.haspb /\ c.spanning /\ r > 1 /\ ChangeLevel(c, r) > 0
  THEN Cardinality({v \in ChangeLevel(c, r)..c.nlev : c.pb[r][v] # ""}) ELSE 0
C04_OnlyWhenRequired(c, E, l) ==
  (l <= Len(E) /\ E[l].k = "data" /\ E[l].r \in 2..c.n) =>
     LET q == PrevData(E, l) IN
       (q # 0 /\ E[l].p > E[q].p) =>
          \/ ForceAt(c, E[l].r)
          \/ DataPartUsed(E, E[q].p, q + 1) + E[l].wt + HeadsBrought(c, E[l].r) + ReservedAll(c) > c.nrow
\* the same, not counting the phantom / doubly charged heading of the recorded findings: the
\* first row of the page being left was charged one heading row that is never rendered when
\* it starts a page_by group kept as a column, and one more when it starts a subline group
PhantomOn(c, E, p) ==
  LET D == DataOn(E, p) IN
    IF D = {} THEN 0
    ELSE LET f == CHOOSE j \in D : \A x \in D : j <= x
             r0 == E[f].r
         IN IF r0 \notin 1..c.n THEN 0
            ELSE (IF c.haspb /\ ~c.spanning /\ (r0 = 1 \/ c.grp[r0] # c.grp[r0 - 1]) THEN 1 ELSE 0)
               + (IF c.hassub /\ (r0 = 1 \/ c.sub[r0] # c.sub[r0 - 1]) THEN 1 ELSE 0)
C04_OnlyWhenRequiredModuloKnown(c, E, l) ==
  (l <= Len(E) /\ E[l].k = "data" /\ E[l].r \in 2..c.n) =>
     LET q == PrevData(E, l) IN
       (q # 0 /\ E[l].p > E[q].p) =>
          \/ ForceAt(c, E[l].r)
          \/ DataPartUsed(E, E[q].p, q + 1) + E[l].wt + HeadsBrought(c, E[l].r) + ReservedAll(c)
               + PhantomOn(c, E, E[q].p) > c.nrow
C04_NoMix(c, E, l) ==
  (l <= Len(E) /\ E[l].k = "data" /\ E[l].r \in 2..c.n) =>
     LET q == PrevData(E, l) IN
       (q # 0 /\ E[q].p = E[l].p) =>
          /\ (c.hassub => c.sub[E[l].r] = c.sub[E[q].r])
          /\ ((c.haspb /\ c.effnp) => c.grp[E[l].r] = c.grp[E[q].r])
\* appending rows never changes how earlier rows were paginated: c.prefixpages[m] is the
\* observed page vector of the document built from the first m rows
PageVec(E) == [r \in 1..Cardinality(DataIdx(E)) |->
                 LET j == CHOOSE x \in DataIdx(E) : E[x].r = r IN E[j].p]
C04_PrefixStable(c, E, l) ==
  (l = Len(E) + 1 /\ c.prefixes # <<>>) =>
     \A m \in 1..Len(c.prefixes) :
        LET pv == c.prefixes[m] IN
          \A r \in 1..Len(pv) : (\E x \in DataIdx(E) : E[x].r = r) =>
               pv[r] = (LET j == CHOOSE x \in DataIdx(E) : E[x].r = r IN E[j].p)

---------------------------------------------------------------------------
(* C05 -- every data row under its own group heading on its own page       *)
---------------------------------------------------------------------------
\* c.pb[r] = sequence (one entry per level) of heading texts, "" for a divider value
\* level from which headings must be shown before data row at position l
FirstDataOfPage(E, l) == \A j \in DataOn(E, E[l].p) : l <= j
ExpectedHeads(c, E, l) ==
  LET r == E[l].r
      from == IF FirstDataOfPage(E, l) \/ r = 1 THEN 1 ELSE ChangeLevel(c, r)
  IN IF from = 0 THEN <<>>
     ELSE SelectSeq([v \in 1..(c.nlev - from + 1) |-> c.pb[r][from + v - 1]], LAMBDA s : s # "")
\* headings actually sitting immediately before position l
RECURSIVE HeadsBefore(_, _)
HeadsBefore(E, l) == IF l <= 1 \/ E[l - 1].k # "head" THEN <<>>
                     ELSE Append(HeadsBefore(E, l - 1), E[l - 1].val)
C05_Heads(c, E, l) ==
  (l <= Len(E) /\ E[l].k = "data" /\ c.haspb /\ c.spanning /\ E[l].r \in 1..c.n) =>
     HeadsBefore(E, l) = ExpectedHeads(c, E, l)
C05_NotStranded(c, E, l) ==
  (l <= Len(E) /\ E[l].k = "head") =>
     l < Len(E) /\ E[l + 1].p = E[l].p /\ E[l + 1].k \in {"head", "data"}
C05_NoHeadsWhenColumn(c, E, l) ==
  (l <= Len(E) /\ E[l].k = "head") => (c.haspb /\ c.spanning)
C05_Subline(c, E, l) ==
  (LastOfPage(E, l) /\ c.hassub /\ DataOn(E, E[l].p) # {}) =>
     LET p == E[l].p
         S == {j \in OnPage(E, p) : E[j].k = "subhead"}
         f == CHOOSE j \in DataOn(E, p) : \A x \in DataOn(E, p) : j <= x
     IN /\ Cardinality(S) = 1
        /\ \A j \in S : j < f /\ E[j].val = c.subtxt[E[f].r]
        /\ \A j \in DataOn(E, p) : E[j].r \in 1..c.n => c.sub[E[j].r] = c.sub[E[f].r]
C05_DividerKeepsRow(c, E, l) ==
  \* a divider value never yields a heading (text "-----") and never costs a data row
  /\ (l <= Len(E) /\ E[l].k = "head") => E[l].val # "-----"
  /\ (l = Len(E) + 1) => Cardinality(DataIdx(E)) = c.n

---------------------------------------------------------------------------
(* C06 -- placement of title, subline, column headers, footnote, source    *)
---------------------------------------------------------------------------
Rank(k) == CASE k = "break" -> 0 [] k = "title" -> 1 [] k = "subline" -> 2 [] k = "subhead" -> 3
             [] k = "colhdr" -> 4 [] k \in {"head", "data"} -> 5
             [] k \in {"foot_t", "foot_p"} -> 6 [] k \in {"src_t", "src_p"} -> 7 [] OTHER -> 99
CountK(E, p, K) == Cardinality({j \in OnPage(E, p) : E[j].k \in K})
C06_Order(c, E, l) ==
  (l <= Len(E) /\ l > 1 /\ E[l - 1].p = E[l].p) => Rank(E[l - 1].k) <= Rank(E[l].k) /\ Rank(E[l].k) < 99
C06_Placement(c, E, l) ==
  LastOfPage(E, l) =>
    LET p == E[l].p
        P == PageCount(E)
    IN /\ CountK(E, p, {"title"})   = (IF c.title /\ Show(c.ptitle, p, P) THEN 1 ELSE 0)
       /\ CountK(E, p, {"subline"}) = (IF c.subline /\ Show(c.ptitle, p, P) THEN 1 ELSE 0)
       /\ CountK(E, p, {"foot_t", "foot_p"}) = (IF c.foot # "none" /\ Show(c.pfoot, p, P) THEN 1 ELSE 0)
       /\ CountK(E, p, {"src_t", "src_p"})   = (IF c.src # "none" /\ Show(c.psrc, p, P) THEN 1 ELSE 0)
       /\ CountK(E, p, {"foot_t"}) = (IF c.foot = "table" /\ Show(c.pfoot, p, P) THEN 1 ELSE 0)
       /\ CountK(E, p, {"src_t"})  = (IF c.src = "table" /\ Show(c.psrc, p, P) THEN 1 ELSE 0)
C06_ColHdr(c, E, l) ==
  LastOfPage(E, l) =>
    LET p == E[l].p IN
      CountK(E, p, {"colhdr"}) = (IF c.nhdr > 0 /\ (p = 1 \/ c.pbhdr) THEN c.nhdr ELSE 0)
C06_Break(c, E, l) ==
  \* every page after the first begins with a break restating the document-start geometry
  /\ (l <= Len(E) /\ E[l].k = "break") => (E[l].p > 1 /\ (l = 1 \/ E[l - 1].p = E[l].p - 1) /\ E[l].geom = c.geom)
  /\ (l <= Len(E) /\ l > 1 /\ E[l].p # E[l - 1].p) => E[l].k = "break"
  /\ (l <= Len(E) /\ l = 1) => E[l].p = 1 /\ E[l].k # "break"
C06_Preamble(c, E, l) ==
  (l = Len(E) + 1) => /\ c.obs.geom = c.geom
                      /\ c.obs.landscape = c.landscape
                      /\ c.obs.nheader = (IF c.pghdr THEN 1 ELSE 0)
                      /\ c.obs.nfooter = (IF c.pgftr THEN 1 ELSE 0)

---------------------------------------------------------------------------
(* C07 -- border hierarchy                                                 *)
---------------------------------------------------------------------------
TableRowsOn(E, p) == {j \in OnPage(E, p) : IsTableRow(E[j])}
FirstOf(S) == CHOOSE j \in S : \A x \in S : j <= x
LastOf(S) == CHOOSE j \in S : \A x \in S : j >= x
AllEq(s, v) == \A x \in 1..Len(s) : s[x] = v
C07_DocTop(c, E, l) ==
  (l = Len(E) + 1 /\ TableRowsOn(E, 1) # {} /\ ~(c.haspb /\ c.spanning /\ c.nhdr = 0)) =>
     AllEq(E[FirstOf(TableRowsOn(E, 1))].top, c.pagefirst)
C07_DocBottom(c, E, l) ==
  (l = Len(E) + 1 /\ TableRowsOn(E, PageCount(E)) # {}) =>
     AllEq(E[LastOf(TableRowsOn(E, PageCount(E)))].bot, c.pagelast)
C07_PageBottom(c, E, l) ==
  (LastOfPage(E, l) /\ E[l].p < PageCount(E) /\ TableRowsOn(E, E[l].p) # {}) =>
     AllEq(E[LastOf(TableRowsOn(E, E[l].p))].bot, c.bodylast)
C07_DataTop(c, E, l) ==
  (l <= Len(E) /\ E[l].k = "data" /\ FirstDataOfPage(E, l) /\ ~(c.haspb /\ c.spanning /\ c.nhdr = 0)) =>
     AllEq(E[l].top, IF E[l].p = 1 /\ c.nhdr = 0 THEN c.pagefirst ELSE c.bodyfirst)
\* all other data-cell edges carry the user's borders
IsDocBottomRow(E, l) == l = LastOf(TableRowsOn(E, PageCount(E)))
IsPageBottomRow(E, l) == l = LastOf(TableRowsOn(E, E[l].p))
\* c.utopm / c.ubotm: the user's border_top / border_bottom of every displayed cell, by ORIGINAL row
\* (scalar, per-column and per-cell shapes are all expanded by the harness from its own input)
UserTop(c, r) == IF "utopm" \in DOMAIN c THEN c.utopm[r] ELSE [k \in 1..64 |-> c.utop]
UserBot(c, r) == IF "ubotm" \in DOMAIN c THEN c.ubotm[r] ELSE [k \in 1..64 |-> c.ubot]
EqUpTo(obs, want) == \A k \in 1..Len(obs) : obs[k] = want[k]
\* the same, allowing the recorded deviation: when border_top is given per column or per cell, the first
\* data row of a page takes in column k the k-th entry of the first row of border_top as the caller wrote it
\* (original column positions, before page_by/subline_by columns are removed) when that entry is not empty,
\* instead of rtf_body.border_first
C07_DataTopModuloKnown(c, E, l) ==
  (l <= Len(E) /\ E[l].k = "data" /\ FirstDataOfPage(E, l) /\ ~(c.haspb /\ c.spanning /\ c.nhdr = 0)) =>
     LET want == IF E[l].p = 1 /\ c.nhdr = 0 THEN c.pagefirst ELSE c.bodyfirst IN
       \A k \in 1..Len(E[l].top) :
          \/ E[l].top[k] = want
          \/ (c.ushape # "scalar" /\ k <= Len(c.utop0raw) /\ c.utop0raw[k] # "" /\ E[l].top[k] = c.utop0raw[k] /\ ~(E[l].p = 1 /\ c.nhdr = 0))

C07_Interior(c, E, l) ==
  (l <= Len(E) /\ E[l].k = "data" /\ E[l].r \in 1..c.n) =>
     /\ (~FirstDataOfPage(E, l) => EqUpTo(E[l].top, UserTop(c, E[l].r)))
     /\ (~IsPageBottomRow(E, l) => EqUpTo(E[l].bot, UserBot(c, E[l].r)))
     /\ AllEq(E[l].lft, c.uleft)
     /\ E[l].rgt[Len(E[l].rgt)] = c.uright

---------------------------------------------------------------------------
(* C08 -- one right edge, proportional columns, headers aligned            *)
---------------------------------------------------------------------------
C08_RightEdge(c, E, l) ==
  (l <= Len(E) /\ IsTableRow(E[l])) => (Len(E[l].cx) > 0 /\ E[l].cx[Len(E[l].cx)] = c.W)
RECURSIVE PSum(_, _)
PSum(s, k) == IF k = 0 THEN 0 ELSE s[k] + PSum(s, k - 1)
Abs(x) == IF x < 0 THEN -x ELSE x
\* c.relw = relative widths (tenths) of the displayed columns; |cx[k]*R - W*S_k| <= R
C08_Proportional(c, E, l) ==
  (l <= Len(E) /\ E[l].k = "data") =>
     /\ Len(E[l].cx) = Len(c.relw)
     /\ LET R == PSum(c.relw, Len(c.relw)) IN
          \A k \in 1..Len(c.relw) : Abs(E[l].cx[k] * R - c.W * PSum(c.relw, k)) <= R
C08_HeaderAligned(c, E, l) ==
  (l <= Len(E) /\ E[l].k = "colhdr" /\ c.hdrinherit) =>
     LET d == NextData(E, l) IN d # 0 => E[l].cx = E[d].cx
C08_SingleCell(c, E, l) ==
  (l <= Len(E) /\ E[l].k \in {"head", "foot_t", "src_t"}) => Len(E[l].cx) = 1

=============================================================================
