------------------------------ MODULE TextConv ------------------------------
(***************************************************************************)
(* C11: the documented text conversion as a scanner over an abstract         *)
(* alphabet, and its use as a trace specification.                           *)
(*                                                                         *)
(* Symbols (concretisation in parentheses):                                  *)
(*   letter pieces  "x"(R) "A"(in) "B"(t) "M"(mathbb) "p"(pagenumber)         *)
(*   "1"(1) "sp"( ) "^" "_" ">" "<" "=" "nl"(newline) "bs"(backslash)        *)
(*   "G"({R}: a balanced brace group) "."(.)                                 *)
(* so that \A = \in and \AB = \int are known commands, \ABx = \intR is       *)
(* unknown by longest match, \M G = \mathbb{R} is a known braced command,    *)
(* \A G is looked up together and unknown, \p is a page-number keyword.      *)
(*                                                                         *)
(* Events (what an RTF reader sees in the rendered run):                     *)
(*   [t |-> "c", v |-> code point]         a character                       *)
(*   [t |-> "k", v |-> name, p |-> param]  an in-text control word           *)
(*      super sub line chpgn, or an unknown command kept verbatim            *)
(*      (param = -1 when absent)                                             *)
(*                                                                         *)
(* One scanner action per token kind: Literal, Caret, Under, Ge, Le,         *)
(* Newline, Command (CmdKnown | CmdBraced | CmdVerbatim | PageKw).           *)
(* Deviation flag GeDelimiterSpace: TRUE = ">=" / "<=" leave the delimiter   *)
(* space of the intermediate \geq / \leq visible (what the code does).       *)
(***************************************************************************)
EXTENDS TextScan, Json
CONSTANTS Alphabet, MaxLen, Converts

\* ---- generator / model: scan every input string ----
VARIABLES inp, conv, pos, exp, phase
vars == <<inp, conv, pos, exp, phase>>
Init == inp = <<>> /\ conv \in Converts /\ pos = 1 /\ exp = <<>> /\ phase = "pick"
PickSym == /\ phase = "pick" /\ Len(inp) < MaxLen
           /\ \E a \in Alphabet : inp' = Append(inp, a)
           /\ UNCHANGED <<conv, pos, exp, phase>>
StartScan == phase = "pick" /\ WellFormedInput(inp) /\ phase' = "scan" /\ UNCHANGED <<inp, conv, pos, exp>>
Scan == /\ phase = "scan" /\ pos <= Len(inp)
        /\ LET r == Step(inp, pos, conv, NoK) IN exp' = exp \o r[1] /\ pos' = r[2]
        /\ UNCHANGED <<inp, conv, phase>>
EndScan == phase = "scan" /\ pos > Len(inp) /\ phase' = "done" /\ UNCHANGED <<inp, conv, pos, exp>>
Next == PickSym \/ StartScan \/ Scan \/ EndScan
Spec == Init /\ [][Next]_vars

\* properties of the documented conversion itself
\* Projection: erasing the events of documented tokens leaves the other characters unchanged and in order
IsPlain(sym) == sym \in {"x", "A", "B", "M", "p", "1", "sp", ".", "G", "E", "=", ">", "<"}
PlainCharsOf(s) == LET F[j \in 0..Len(s)] == IF j = 0 THEN <<>> ELSE F[j - 1] \o (IF IsPlain(s[j]) THEN Piece(s[j]) ELSE <<>>) IN F[Len(s)]
OffIsIdentity == (phase = "done" /\ ~conv /\ \A j \in 1..Len(inp) : inp[j] \notin {"bs", "nl", "T", "F", "K", "H"}) =>
                    exp = Chars(LET F[j \in 0..Len(inp)] == IF j = 0 THEN <<>> ELSE F[j - 1] \o Piece(inp[j]) IN F[Len(inp)])
ScanProgress == [][phase = "scan" /\ phase' = "scan" => pos' > pos]_vars
OnlyDocumentedControls == phase = "done" /\ conv =>
   \A j \in 1..Len(exp) : exp[j].t = "k" => (exp[j].v \in {"super", "sub", "line", "chpgn", "totalpage", "field:NUMPAGES"} \/ \E q \in 1..Len(inp) : inp[q] \in {"bs", "K", "T", "F"})
Emit == phase = "done" => PrintT(ToJson([inp |-> inp, conv |-> conv, exp |-> exp]))
=============================================================================
