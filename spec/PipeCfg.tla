------------------------------ MODULE PipeCfg ------------------------------
(***************************************************************************)
(* Constant-level derivations from an abstract scenario record: which      *)
(* strategy applies, the group-key texts of every row, the number of       *)
(* header rows.  Shared by the model (Pipeline) and the trace              *)
(* specification (PipeTrace) so that both judge the same configuration.    *)
(***************************************************************************)
EXTENDS Naturals, Integers, Sequences, FiniteSets, TLC

HasPB(c) == c.strat \in {"pageby", "subpb"}
HasSub(c) == c.strat \in {"subline", "subpb"}


---------------------------------------------------------------------------
(* derived configuration (shared with the trace specification)             *)
---------------------------------------------------------------------------
RECURSIVE CountChg(_, _, _, _)
\* number of rows j in lo..hi whose change level is exactly v
CountChg(c, v, lo, hi) == IF lo > hi THEN 0 ELSE (IF c.chg[hi] = v THEN 1 ELSE 0) + CountChg(c, v, lo, hi - 1)
\* last row <= r at which a level outer to v changed (1 if none)
ParentStart(c, v, r) == LET S == {j \in 1..r : c.chg[j] >= 1 /\ c.chg[j] < v} IN
                        IF S = {} THEN 1 ELSE CHOOSE j \in S : \A x \in S : x <= j
\* index of the value of level v at row r inside its parent group (restarts at 1 per parent)
ValIdx(c, v, r) == LET s == ParentStart(c, v, r) IN 1 + CountChg(c, v, s + 1, r)
\* divider modes: "none"; "second" = the second value of the innermost level is the divider '-----';
\* "first" = under every outer group but the first, the FIRST innermost value is the divider and the
\* following ones reuse the names of the first outer group (so a value can follow a divider with the
\* same text it had under the previous outer group); "outer" = at every level but the innermost the second value
\* (within its parent) is the divider, so that a group can differ from its predecessor only by an outer divider
\* while the inner texts repeat
PbName(v, i) == "~P" \o ToString(v) \o "." \o ToString(i) \o "~"
PbText(c, v, r) ==
  LET i == ValIdx(c, v, r) IN
    IF c.div = "second" /\ v = c.nlev /\ i = 2 THEN "-----"
    \* "nullkey": the second value of the innermost level is null (a key value like any other; only drawn where the
    \* page_by column is displayed as cells, so that no heading text is in question)
    ELSE IF c.div = "nullkey" /\ v = c.nlev /\ i = 2 THEN "<null>"
    \* "padkey": the innermost key values carry surrounding blanks (drawn, like "nullkey", only where the page_by column is
    \* displayed as cells: the cell shows the value as it is)
    ELSE IF c.div = "padkey" /\ v = c.nlev THEN "  " \o PbName(v, i) \o " "
    \* "resume": the value after the divider group has the text shown before it (X, -----, X, Y, ...)
    ELSE IF c.div = "resume" /\ v = c.nlev THEN (IF i = 2 THEN "-----" ELSE IF i >= 3 THEN PbName(v, i - 2) ELSE PbName(v, 1))
    \* "cycle": no dividers; at every level two names alternate, so a key comes back after another one (A, B, A)
    ELSE IF c.div = "cycle" THEN PbName(v, ((i - 1) % 2) + 1)
    ELSE IF c.div = "outer" /\ v < c.nlev /\ i = 2 THEN "-----"
    ELSE IF c.div = "first" /\ v = c.nlev /\ c.nlev >= 2 /\ ValIdx(c, v - 1, r) >= 2
         THEN (IF i = 1 THEN "-----" ELSE PbName(v, i - 1))
    ELSE PbName(v, i)

---------------------------------------------------------------------------
(* column layout: which columns the frame has, in which order, which are   *)
(* removed from the display, and the caller's per-cell border patterns     *)
---------------------------------------------------------------------------
\* a column is <<"g", level>> (page_by), <<"s", 0>> (subline_by) or <<"d", k>> (data)
GroupCols(c) == LET g == (IF HasPB(c) THEN [v \in 1..c.nlev |-> <<"g", v>>] ELSE <<>>) \o (IF HasSub(c) THEN (IF c.div = "collide" THEN << <<"s", 0>>, <<"s", 1>> >> ELSE << <<"s", 0>> >>) ELSE <<>>)
                IN IF c.gpos = "rev" THEN [k \in 1..Len(g) |-> g[Len(g) + 1 - k]] ELSE g
DataCols(c) == [k \in 1..c.ndata |-> <<"d", k>>]
RECURSIVE Interleave(_, _)
Interleave(a, b) == IF a = <<>> THEN b ELSE IF b = <<>> THEN a ELSE <<Head(a), Head(b)>> \o Interleave(Tail(a), Tail(b))
FrameCols(c) ==
  LET g == GroupCols(c)  dd == DataCols(c)
      h2 == IF c.ndata \div 2 >= 1 THEN c.ndata \div 2 ELSE 1
  IN CASE c.gpos = "last" -> dd \o g
       [] c.gpos = "split" -> Interleave(g, dd)
       [] c.gpos = "middle" -> SubSeq(dd, 1, h2) \o g \o SubSeq(dd, h2 + 1, Len(dd))
       [] OTHER -> g \o dd
IsSpanning(c) == HasPB(c) /\ (~c.newpage \/ c.pbrow # "column")
RemovedCol(c, col) == col[1] = "s" \/ (col[1] = "g" /\ IsSpanning(c))
\* positions (in the frame) of the displayed columns, in display order
KeptIdx(c) == LET f == FrameCols(c) IN SelectSeq([k \in 1..Len(f) |-> k], LAMBDA k : ~RemovedCol(c, f[k]))
\* width of the first row of the attribute as the caller wrote it
RawWidth(c) == IF c.ushape \in {"col", "matrix"} THEN Len(FrameCols(c)) ELSE 1
\* the harness' border patterns over ORIGINAL rows/columns (1-based): per column the style on odd columns,
\* per cell the style where row + column is even
UPat(c, style, r, j) == CASE c.ushape = "col" -> (IF (j - 1) % 2 = 0 THEN style ELSE "")
                          [] c.ushape = "matrix" -> (IF (r - 1 + j - 1) % 2 = 0 THEN style ELSE "")
                          \* "rowpat": a per-row pattern of three entries (style, "", "") recycled down the table
                          [] c.ushape = "rowpat" -> (IF (r - 1) % 3 = 0 THEN style ELSE "")
                          [] OTHER -> style
UVec(c, style, r) == LET kk == KeptIdx(c) IN [k \in 1..Len(kk) |-> UPat(c, style, r, kk[k])]
StyleVec(c, style) == [k \in 1..Len(KeptIdx(c)) |-> style]

RECURSIVE CountTrue(_, _)
CountTrue(s, r) == IF r = 0 THEN 0 ELSE (IF s[r] THEN 1 ELSE 0) + CountTrue(s, r - 1)
RECURSIVE Ones1(_)
Ones1(n) == IF n <= 0 THEN "" ELSE "1" \o Ones1(n - 1)
\* "collide": subline_by has TWO columns whose values differ from group to group while their plain concatenation
\* is the same for every group ("~S1" + "11~", "~S11" + "1~", ...); the heading joins them with ", "
SubText(c, r) ==
  LET i == CountTrue(c.schg, r) IN
    IF c.div = "collide" THEN "~S" \o Ones1(i) \o ", " \o Ones1(CountTrue(c.schg, c.n) + 1 - i) \o "~"
    ELSE "~S" \o ToString(IF c.div = "cycle" THEN ((i - 1) % 2) + 1 ELSE i) \o "~"

Derive(c) ==
  c @@ [haspb |-> HasPB(c), hassub |-> HasSub(c),
        spanning |-> HasPB(c) /\ (~c.newpage \/ c.pbrow # "column"),
        effnp |-> c.newpage \/ HasSub(c),
        nhdr |-> CASE c.hdr = "none" -> 0 [] c.hdr = "explicit2" -> 2 [] OTHER -> 1,
        pb |-> [r \in 1..c.n |-> [v \in 1..c.nlev |-> IF HasPB(c) THEN (IF PbText(c, v, r) = "-----" THEN "" ELSE PbText(c, v, r)) ELSE ""]],
        grp |-> [r \in 1..c.n |-> IF HasPB(c) THEN [v \in 1..c.nlev |-> PbText(c, v, r)] ELSE <<>>],
        sub |-> [r \in 1..c.n |-> IF HasSub(c) THEN SubText(c, r) ELSE ""],
        subtxt |-> [r \in 1..c.n |-> IF HasSub(c) THEN SubText(c, r) ELSE ""],
        \* the caller's border matrices over the displayed columns, and border_top's first row as written
        utopm |-> [r \in 1..c.n |-> UVec(c, c.utop, r)], ubotm |-> [r \in 1..c.n |-> UVec(c, c.ubot, r)],
        utop0raw |-> IF c.ushape = "scalar" THEN <<>> ELSE [j \in 1..RawWidth(c) |-> UPat(c, c.utop, 1, j)]]


=============================================================================
