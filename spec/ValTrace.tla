------------------------------ MODULE ValTrace ------------------------------
(* Property-level trace specification for C19: one behaviour per row of the decision table;
   each step consumes one construction attempt with an invalid value: ev.outcome is the class
   of what happened, ev.control whether the same construction with the valid value succeeded. *)
EXTENDS Naturals, Integers, Sequences, FiniteSets, TLC, Json, IOUtils
CONSTANT Judge
All == JsonDeserialize(IOEnv.TRACE_FILE)
VARIABLES tid, l, bad
vars == <<tid, l, bad>>
E(t) == All[t].ev
Expected(x) == IF x.cat = "missing_file" THEN "FileNotFoundError" ELSE "ValueError"
C19_Reject(x, ev, pos) == pos <= Len(ev) => ev[pos].outcome = Expected(x)
C19_Control(x, ev, pos) == pos <= Len(ev) => ev[pos].control
C19_Tried(x, ev, pos) == (pos = Len(ev) + 1) => Len(ev) >= 1
Holds(name, x, ev, pos) ==
  CASE name = "C19_Reject" -> C19_Reject(x, ev, pos)
    [] name = "C19_Control" -> C19_Control(x, ev, pos)
    [] name = "C19_Tried" -> C19_Tried(x, ev, pos)
Init == tid \in 1..Len(All) /\ l = 1 /\ bad = {}
Failing(t, pos) == {y \in Judge : ~Holds(y, All[t].c, E(t), pos)}
ConsumeAttempt == /\ l <= Len(E(tid)) + 1 /\ bad' = bad \cup {[cl |-> y, at |-> l] : y \in Failing(tid, l)}
                  /\ l' = l + 1 /\ UNCHANGED tid
Finish == /\ l = Len(E(tid)) + 2 /\ PrintT(ToJson([id |-> All[tid].id, bad |-> bad])) /\ l' = l + 1 /\ UNCHANGED <<tid, bad>>
Next == ConsumeAttempt \/ Finish
Spec == Init /\ [][Next]_vars
=============================================================================
