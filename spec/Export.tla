------------------------------- MODULE Export -------------------------------
(***************************************************************************)
(* C18: write_rtf / write_docx / write_html / write_pdf as state machines   *)
(* over the file system: the target path, its parent directory, two         *)
(* temporary directories, the converter contract, and a fault (an exception  *)
(* raised at the fault-th library function call inside rtf_encode()).        *)
(*   MkParent  NewConverter  MkTmp1  Encode|EncodeFail  WriteTmp  MkTmp2     *)
(*   Convert(outcome)  TypeCheck  Move  MoveResources  Cleanup               *)
(*   write_rtf:  MkParent  Encode|EncodeFail  WriteTarget                    *)
(* Deviation flag EncodeBeforeOpen: TRUE = the target is opened only after   *)
(* the document has been encoded (what the code does today).                 *)
(***************************************************************************)
EXTENDS Naturals, Integers, Sequences, FiniteSets, TLC, Json
CONSTANTS Writers, Targets0, ConvOutcomes, Faults, Flavours, FsFaults, HaveLibreOffice, EncodeBeforeOpen, ConverterKinds,
          TNameSet,     \* "std" | "htm" | "noext": spelling of the HTML target name
          PriorSet      \* "none" | "export_edit": the same document object was exported before and a component was then edited in place
\* ConverterKinds: "stub" (an object with a convert method), "default" (converter=None, no LibreOffice installed),
\*   "real" (LibreOfficeConverter(executable_path=...) driving an external program), "onpath" (converter=None, the
\*   program is found on PATH); the program of "real"/"onpath" is the environment process of Converter.tla
RealOutcomes == {"ok", "raise_before", "raise_after", "silent"}
VARIABLES sc, d, pc, target, parent, tmp, files, res, err, touched
vars == <<sc, d, pc, target, parent, tmp, files, res, err, touched>>
\* sc: scenario; target: "absent" | "old" | "new" | "partial"; parent: "missing" | "present"
\* tmp: set of live temporary directories; files: files inside them; res: resource dir beside target
\* touched: sequence of steps at which the target path was written (for TargetOnlyByLastStep)

Sc0 == [writer |-> "rtf", target0 |-> "absent", conv |-> "ok", fault |-> 0, flavour |-> "base", converter |-> "stub", fsfault |-> 0, prior |-> "none", tname |-> "std"]
Init == /\ sc = Sc0 /\ d = 1 /\ pc = "pick"
        /\ target = "absent" /\ parent = "present" /\ tmp = {} /\ files = {} /\ res = FALSE /\ err = "none" /\ touched = <<>>
Pick == /\ pc = "pick" /\ d <= 9
        /\ CASE d = 1 -> \E v \in Writers : sc' = [sc EXCEPT !.writer = v]
             [] d = 2 -> \E v \in Targets0 : sc' = [sc EXCEPT !.target0 = v]
             [] d = 3 -> \E v \in (IF sc.writer = "rtf" THEN {"stub"} ELSE ConverterKinds) : sc' = [sc EXCEPT !.converter = v]
             [] d = 4 -> \E v \in ({0} \cup Faults) : sc' = [sc EXCEPT !.fault = v]
             [] d = 5 -> \E v \in (IF sc.fault = 0 THEN {"base"} ELSE Flavours) : sc' = [sc EXCEPT !.flavour = v]
             [] d = 6 -> \E v \in (IF sc.writer = "rtf" \/ sc.converter = "default" \/ sc.fault # 0 THEN {"ok"}
                                 ELSE IF sc.converter \in {"real", "onpath"} THEN RealOutcomes \cap (ConvOutcomes \cup {"silent"}) ELSE ConvOutcomes \ {"silent"}) :
                           sc' = [sc EXCEPT !.conv = v]
             \* an OSError raised by the fsfault-th file-system operation of the export (0 = none)
             [] d = 7 -> \E v \in (IF sc.fault # 0 \/ sc.conv # "ok" THEN {0} ELSE {0} \cup FsFaults) : sc' = [sc EXCEPT !.fsfault = v]
             \* the export under test may be the second one of this document object (state carried between calls)
             [] d = 8 -> \E v \in (IF sc.fault # 0 \/ sc.fsfault # 0 \/ sc.conv # "ok" \/ sc.converter \notin {"stub"} THEN {"none"} ELSE PriorSet) : sc' = [sc EXCEPT !.prior = v]
             \* the name of the HTML target need not end in ".html" (the resource folder keeps the converter's name)
             [] d = 9 -> \E v \in (IF sc.writer = "html" THEN TNameSet ELSE {"std"}) : sc' = [sc EXCEPT !.tname = v]
        /\ d' = d + 1 /\ UNCHANGED <<pc, target, parent, tmp, files, res, err, touched>>
Start == /\ pc = "pick" /\ d = 10 /\ pc' = "mkparent"
         /\ target' = (IF sc.target0 = "old" THEN "old" ELSE "absent")
         /\ parent' = (IF sc.target0 \in {"missingdir", "tilde"} THEN "missing" ELSE "present")   \* "tilde": a home-relative path whose directories do not exist yet
         /\ UNCHANGED <<sc, d, tmp, files, res, err, touched>>

Step(from, to) == pc = from /\ pc' = to
\* an exception unwinds through the TemporaryDirectory context managers: both are removed
Unwind(e) == /\ err' = e /\ tmp' = {} /\ files' = {} /\ pc' = "raised" /\ UNCHANGED <<sc, d, target, parent, res, touched>>
MkParent == /\ Step("mkparent", IF sc.writer = "rtf" THEN (IF EncodeBeforeOpen THEN "encode" ELSE "opentarget") ELSE "newconv")
            /\ parent' = "present" /\ UNCHANGED <<sc, d, target, tmp, files, res, err, touched>>
NewConverter == /\ pc = "newconv"
                /\ IF sc.converter = "default" /\ ~HaveLibreOffice
                   THEN Unwind("FileNotFoundError")
                   ELSE pc' = "mktmp1" /\ UNCHANGED <<sc, d, target, parent, tmp, files, res, err, touched>>
MkTmp1 == Step("mktmp1", "encode") /\ tmp' = tmp \cup {"t1"} /\ UNCHANGED <<sc, d, target, parent, files, res, err, touched>>
\* deviation (EncodeBeforeOpen = FALSE): write_rtf opens the target before encoding
OpenTarget == /\ Step("opentarget", "encode") /\ target' = "partial" /\ touched' = Append(touched, "opentarget")
              /\ UNCHANGED <<sc, d, parent, tmp, files, res, err>>
Encode == /\ pc = "encode"
          /\ IF sc.fault # 0 THEN Unwind("fault")
             ELSE /\ pc' = (IF sc.writer = "rtf" THEN "writetarget" ELSE "writetmp")
                  /\ UNCHANGED <<sc, d, target, parent, tmp, files, res, err, touched>>
\* an injected Exception (not BaseException) may be absorbed inside the library: encoding completes
EncodeAbsorbs == /\ pc = "encode" /\ sc.fault # 0 /\ sc.flavour = "exc"
                 /\ pc' = (IF sc.writer = "rtf" THEN "writetarget" ELSE "writetmp")
                 /\ UNCHANGED <<sc, d, target, parent, tmp, files, res, err, touched>>
WriteTarget == /\ Step("writetarget", "returned") /\ target' = "new" /\ touched' = Append(touched, "writetarget")
               /\ UNCHANGED <<sc, d, parent, tmp, files, res, err>>
WriteTmp == Step("writetmp", "mktmp2") /\ files' = files \cup {"t1/x.rtf"} /\ UNCHANGED <<sc, d, target, parent, tmp, res, err, touched>>
MkTmp2 == Step("mktmp2", "convert") /\ tmp' = tmp \cup {"t2"} /\ UNCHANGED <<sc, d, target, parent, files, res, err, touched>>
Convert == /\ pc = "convert"
           /\ CASE sc.conv \in {"ok", "ok_empty"} -> /\ pc' = "move" /\ files' = files \cup {"t2/x.out"} \cup (IF sc.writer = "html" THEN {"t2/x_files"} ELSE {})
                                     /\ UNCHANGED <<sc, d, target, parent, tmp, res, err, touched>>
                [] sc.conv = "raise_before" -> Unwind("convert")
                [] sc.conv = "raise_after" -> Unwind("convert")      \* the output was produced inside t2 and goes with it
                \* a well-typed Path to a file that was never created: the type check passes, the move fails
                [] sc.conv = "ret_missing" -> /\ pc' = "move" /\ UNCHANGED <<sc, d, target, parent, tmp, files, res, err, touched>>
                [] sc.conv = "silent" -> Unwind("convert")           \* exit status 0 but no output: Converter.tla CheckOutput
                [] OTHER -> /\ pc' = "typecheck" /\ files' = files \cup {"t2/x.out"}
                            /\ UNCHANGED <<sc, d, target, parent, tmp, res, err, touched>>
TypeCheck == pc = "typecheck" /\ Unwind("TypeError")
Move == /\ pc = "move"
        /\ IF "t2/x.out" \notin files THEN Unwind("move")      \* nothing to move: the target must not have been touched
           ELSE /\ pc' = (IF sc.writer = "html" THEN "moveres" ELSE "cleanup") /\ target' = "new"
                /\ files' = files \ {"t2/x.out"} /\ touched' = Append(touched, "move")
                /\ UNCHANGED <<sc, d, parent, tmp, res, err>>
MoveResources == /\ Step("moveres", "cleanup") /\ res' = TRUE /\ files' = files \ {"t2/x_files"}
                 /\ UNCHANGED <<sc, d, target, parent, tmp, err, touched>>
Cleanup == Step("cleanup", "returned") /\ tmp' = {} /\ files' = {} /\ UNCHANGED <<sc, d, target, parent, res, err, touched>>
\* a failing file-system operation: any step that touches the file system before the target is touched
\* may raise instead (which one is the fsfault-th is left to the implementation; the harness
\* injects it by number)
FsFail == /\ sc.fsfault # 0 /\ pc \in {"mkparent", "mktmp1", "writetmp", "mktmp2", "convert", "move", "writetarget"}
          /\ Unwind("OSError")
Next == Pick \/ Start \/ FsFail \/ MkParent \/ NewConverter \/ MkTmp1 \/ OpenTarget \/ Encode \/ EncodeAbsorbs \/ WriteTarget \/ WriteTmp
        \/ MkTmp2 \/ Convert \/ TypeCheck \/ Move \/ MoveResources \/ Cleanup
Spec == Init /\ [][Next]_vars

Target0State == IF sc.target0 = "old" THEN "old" ELSE "absent"
AllOrNothing == /\ (pc = "raised"   => target = Target0State /\ tmp = {} /\ files = {} /\ ~res)
                /\ (pc = "returned" => target = "new" /\ tmp = {} /\ files = {} /\ (res <=> sc.writer = "html"))
\* the target path is written exactly once, by the last file-system step of a successful export
TargetOnlyByLastStep == Len(touched) <= 1 /\ (Len(touched) = 1 => touched[1] \in {"move", "writetarget"})
MalformedRaises == (pc = "returned" /\ sc.writer # "rtf" /\ sc.converter \in {"stub", "real", "onpath"}) => sc.conv \in {"ok", "ok_empty"}
Terminal == pc \in {"raised", "returned"}
Emit == Terminal => PrintT(ToJson([sc |-> sc, pc |-> pc, err |-> err]))
=============================================================================
