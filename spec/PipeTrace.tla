----------------------------- MODULE PipeTrace -----------------------------
(***************************************************************************)
(* Property-level trace specification ("Props" reading, DESIGN.md R2) for   *)
(* the rendering pipeline.  The file named by the environment variable      *)
(* TRACE_FILE holds a JSON array of traces recorded from the real           *)
(* rtf_encode(): [id, c (abstract scenario + expected values computed by    *)
(* the harness from its own inputs), ev (block sequence read back by the    *)
(* independent RTF reader)].                                                *)
(*                                                                         *)
(* One behaviour per trace: Consume<Kind> actions mirror the Emit actions   *)
(* of the renderer and consume one observed event each; every clause in     *)
(* Judge is evaluated at every position; failing clauses are recorded in    *)
(* `bad` (the verdict is total) and printed by Finish.                      *)
(***************************************************************************)
EXTENDS Naturals, Integers, Sequences, FiniteSets, TLC, Json, IOUtils, PipeProps, PipeCfg

CONSTANT Judge          \* set of clause names to evaluate

All == JsonDeserialize(IOEnv.TRACE_FILE)
DAll == [t \in 1..Len(All) |-> Derive(All[t].c)]

VARIABLES tid, l, bad
vars == <<tid, l, bad>>

E(t) == All[t].ev

Holds(name, c, ev, pos) ==
  CASE name = "C02_Order" -> C02_Order(c, ev, pos)
    [] name = "C02_Text" -> C02_Text(c, ev, pos)
    [] name = "C02_Tag" -> C02_Tag(c, ev, pos)
    [] name = "C03_Budget" -> C03_Budget(c, ev, pos)
    [] name = "C03_BudgetModuloKnown" -> C03_BudgetModuloKnown(c, ev, pos)
    [] name = "C04_NonEmpty" -> C04_NonEmpty(c, ev, pos)
    [] name = "C04_Contiguous" -> C04_Contiguous(c, ev, pos)
    [] name = "C04_Forced" -> C04_Forced(c, ev, pos)
    [] name = "C04_OnlyWhenRequired" -> C04_OnlyWhenRequired(c, ev, pos)
    [] name = "C04_OnlyWhenRequiredModuloKnown" -> C04_OnlyWhenRequiredModuloKnown(c, ev, pos)
    [] name = "C04_NoMix" -> C04_NoMix(c, ev, pos)
    [] name = "C04_PrefixStable" -> C04_PrefixStable(c, ev, pos)
    [] name = "C05_Heads" -> C05_Heads(c, ev, pos)
    [] name = "C05_NotStranded" -> C05_NotStranded(c, ev, pos)
    [] name = "C05_NoHeadsWhenColumn" -> C05_NoHeadsWhenColumn(c, ev, pos)
    [] name = "C05_Subline" -> C05_Subline(c, ev, pos)
    [] name = "C05_DividerKeepsRow" -> C05_DividerKeepsRow(c, ev, pos)
    [] name = "C06_Order" -> C06_Order(c, ev, pos)
    [] name = "C06_Placement" -> C06_Placement(c, ev, pos)
    [] name = "C06_ColHdr" -> C06_ColHdr(c, ev, pos)
    [] name = "C06_Break" -> C06_Break(c, ev, pos)
    [] name = "C06_Preamble" -> C06_Preamble(c, ev, pos)
    [] name = "C07_DocTop" -> C07_DocTop(c, ev, pos)
    [] name = "C07_DocBottom" -> C07_DocBottom(c, ev, pos)
    [] name = "C07_PageBottom" -> C07_PageBottom(c, ev, pos)
    [] name = "C07_DataTop" -> C07_DataTop(c, ev, pos)
    [] name = "C07_DataTopModuloKnown" -> C07_DataTopModuloKnown(c, ev, pos)
    [] name = "C07_Interior" -> C07_Interior(c, ev, pos)
    [] name = "C08_RightEdge" -> C08_RightEdge(c, ev, pos)
    [] name = "C08_Proportional" -> C08_Proportional(c, ev, pos)
    [] name = "C08_HeaderAligned" -> C08_HeaderAligned(c, ev, pos)
    [] name = "C08_SingleCell" -> C08_SingleCell(c, ev, pos)

Init == tid \in 1..Len(All) /\ l = 1 /\ bad = {}

Failing(t, pos) == {x \in Judge : ~Holds(x, DAll[t], E(t), pos)}
\* every failing (clause, position) pair is recorded, so each can be attributed separately
Record(t, pos) == bad \cup {[cl |-> x, at |-> pos] : x \in Failing(t, pos)}

Consume(kind) == /\ l <= Len(E(tid)) /\ E(tid)[l].k = kind
                 /\ bad' = Record(tid, l) /\ l' = l + 1 /\ UNCHANGED tid
ConsumeBreak == Consume("break")
ConsumeTitle == Consume("title")
ConsumeSubline == Consume("subline")
ConsumeSubHead == Consume("subhead")
ConsumeColHdr == Consume("colhdr")
ConsumeHead == Consume("head")
ConsumeData == Consume("data")
ConsumeFootT == Consume("foot_t")
ConsumeFootP == Consume("foot_p")
ConsumeSrcT == Consume("src_t")
ConsumeSrcP == Consume("src_p")
ConsumeOther == Consume("other")
\* end of document: clauses about the whole document are evaluated at position Len+1
EndDoc == /\ l = Len(E(tid)) + 1
          /\ bad' = Record(tid, l) /\ l' = l + 1 /\ UNCHANGED tid
Finish == /\ l = Len(E(tid)) + 2
          /\ PrintT(ToJson([id |-> All[tid].id, bad |-> bad]))
          /\ l' = l + 1 /\ UNCHANGED <<tid, bad>>

Next == ConsumeBreak \/ ConsumeTitle \/ ConsumeSubline \/ ConsumeSubHead \/ ConsumeColHdr \/ ConsumeHead
        \/ ConsumeData \/ ConsumeFootT \/ ConsumeFootP \/ ConsumeSrcT \/ ConsumeSrcP \/ ConsumeOther
        \/ EndDoc \/ Finish
Spec == Init /\ [][Next]_vars

\* every trace is consumed to its end (acceptance): checked as a postcondition by the harness
\* through the number of verdict lines printed.
=============================================================================
