------------------------------ MODULE ColorDoc ------------------------------
(***************************************************************************)
(* C12 scenario model: one document, its palette, which components carry    *)
(* which colour, and the index every colour reference resolves to.          *)
(*   pick     path, palette (distinct master indices), component modes,     *)
(*            body attribute + shape, number of sections                    *)
(*   SetCtx / Lookup* / EmitTable   as in ColorCtx (same Dense rule)        *)
(* Colour assignment is a fixed function of the scenario (mirrored by        *)
(* harness/check_color.py): component j uses pal[(j-1) mod k + 1] as text    *)
(* colour and pal[j mod k + 1] as background; body cell (s, r, c) uses       *)
(* pal[(r + c + s) mod k + 1] (matrix), pal[(c + s) mod k + 1] (per column)  *)
(* or pal[s mod k + 1] (scalar).                                             *)
(***************************************************************************)
EXTENDS Naturals, Integers, Sequences, FiniteSets, TLC, Json
CONSTANTS PathSet, ColourIdx, KSet, ModeSet, BodyAttrSet, ShapeSet, FontSet,
          HAutoSet,        \* BOOLEAN: the column header has no text of its own (labels come from the column names)
          ReEncSet,        \* BOOLEAN: encode, replace the colour-bearing components, encode again
          LongSet,         \* BOOLEAN: every section has 34 rows on pages of three rows (the colour pattern recycles down the table)
          UseColorSet,     \* RTFPage(use_color=...): "default" | "true" | "false"
          SetOnAllPaths    \* deviation flag, as in ColorCtx
VARIABLES cfg, d, phase, ctx, uses, k, out
vars == <<cfg, d, phase, ctx, uses, k, out>>
Comps == <<"title", "subline", "header", "footnote", "source", "pghdr", "pgftr">>
Cfg0 == [path |-> "single", pal |-> <<>>, kk |-> 1, modes |-> <<>>, battr |-> "text", shape |-> "scalar", font |-> 1, fcomp |-> 1, hauto |-> FALSE, usecolor |-> "default", reenc |-> FALSE, long |-> FALSE]
NSec(c) == CASE c.path = "multi2" -> 2 [] c.path = "multi3" -> 3 [] c.path = "figure" -> 0 [] OTHER -> 1
Dense(S, x) == IF x \in S THEN Cardinality({y \in S : y <= x}) ELSE 0
Range(s) == {s[j] : j \in 1..Len(s)}

Init == cfg = Cfg0 /\ d = 1 /\ phase = "pick" /\ ctx = <<FALSE, {}>> /\ uses = <<>> /\ k = 1 /\ out = <<>>
Pick == /\ phase = "pick" /\ d <= 12
        /\ CASE d = 1 -> \E v \in PathSet : cfg' = [cfg EXCEPT !.path = v] /\ d' = 2
             [] d = 2 -> \E v \in KSet : cfg' = [cfg EXCEPT !.kk = v] /\ d' = 3
             [] d = 3 -> IF Len(cfg.pal) >= cfg.kk THEN cfg' = cfg /\ d' = 4
                         ELSE \E v \in ColourIdx \ Range(cfg.pal) : cfg' = [cfg EXCEPT !.pal = Append(@, v)] /\ d' = 3
             [] d = 4 -> IF Len(cfg.modes) >= 7 THEN cfg' = cfg /\ d' = 5
                         ELSE \E v \in ModeSet : cfg' = [cfg EXCEPT !.modes = Append(@, v)] /\ d' = 4
             [] d = 5 -> \E v \in BodyAttrSet : cfg' = [cfg EXCEPT !.battr = v] /\ d' = 6
             [] d = 6 -> \E v \in ShapeSet : cfg' = [cfg EXCEPT !.shape = v] /\ d' = 7
             [] d = 7 -> \E v \in FontSet : cfg' = [cfg EXCEPT !.font = v] /\ d' = 8
             [] d = 8 -> \E v \in (IF cfg.font = 1 THEN {1} ELSE 1..7) : cfg' = [cfg EXCEPT !.fcomp = v] /\ d' = 9
             [] d = 9 -> \E v \in (IF cfg.modes[3] # "off" /\ cfg.path = "single" THEN HAutoSet ELSE {FALSE}) : cfg' = [cfg EXCEPT !.hauto = v] /\ d' = 10
             [] d = 10 -> \E v \in UseColorSet : cfg' = [cfg EXCEPT !.usecolor = v] /\ d' = 11
             \* reenc: the document object was encoded before with OTHER colours on the same components, which were then
             \* replaced; the encode under test must resolve against the colours the document has now
             [] d = 11 -> \E v \in ReEncSet : cfg' = [cfg EXCEPT !.reenc = v] /\ d' = 12
             \* long: many pages (a renderer that hands pages to helpers must resolve colours on every one of them)
             [] d = 12 -> \E v \in (IF cfg.path = "figure" THEN {FALSE} ELSE LongSet) : cfg' = [cfg EXCEPT !.long = v] /\ d' = 13
        /\ UNCHANGED <<phase, ctx, uses, k, out>>

\* ---- the colour every element asks for (role, colour as master index) ----
PalAt(c, i) == c.pal[(i % c.kk) + 1]
CompAllowed(c, j) == IF c.path = "figure" THEN Comps[j] # "header" ELSE TRUE
CompUses(c) ==
  LET one(j) == IF ~CompAllowed(c, j) \/ c.modes[j] = "off" THEN <<>>
                ELSE (IF c.modes[j] \in {"text", "both"} THEN << <<Comps[j], "cf", PalAt(c, j - 1)>> >> ELSE <<>>)
                  \o (IF c.modes[j] \in {"bg", "both"} THEN << <<Comps[j], "cb", PalAt(c, j)>> >> ELSE <<>>)
                  \* a border colour on a table-rendered component (column header, footnote, source)
                  \o (IF c.modes[j] = "border" /\ Comps[j] \in {"header", "footnote", "source"} /\ c.path # "figure"
                      THEN << <<Comps[j], "brdr_top", PalAt(c, j + 1)>> >> ELSE <<>>)
  IN one(1) \o one(2) \o one(3) \o one(4) \o one(5) \o one(6) \o one(7)
BodyColour(c, s, r, col) == CASE c.shape = "scalar" -> PalAt(c, s)
                              [] c.shape = "col" -> PalAt(c, col + s)
                              [] OTHER -> PalAt(c, r + col + s)
BodyUses(c) ==   \* 2 rows x 2 columns per section
  IF c.battr = "none" THEN <<>>
  ELSE LET cell(s, r, col) == <<"body", c.battr, BodyColour(c, s, r, col), s, r, col>>
           sec(s) == << cell(s, 1, 1), cell(s, 1, 2), cell(s, 2, 1), cell(s, 2, 2) >>
       IN CASE NSec(c) = 0 -> <<>> [] NSec(c) = 1 -> sec(1) [] NSec(c) = 2 -> sec(1) \o sec(2)
            [] OTHER -> sec(1) \o sec(2) \o sec(3)
\* the right border is rendered on the last column only; the palette is collected from the
\* whole attribute matrix
Rendered(c, u) == ~(u[1] = "body" /\ u[2] = "brd_right" /\ u[6] # 2)
AllUses(c) == CompUses(c) \o SelectSeq(BodyUses(c), LAMBDA u : Rendered(c, u))
Black == 24      \* master index of "black": the default colour, index 0, never in the table
Collected(c) == CompUses(c) \o BodyUses(c)
Palette(c) == {Collected(c)[j][3] : j \in 1..Len(Collected(c))} \ {Black}

SetsCtx(c) == c.path = "single" \/ SetOnAllPaths
Begin == /\ phase = "pick" /\ d = 13 /\ uses' = AllUses(cfg)
         /\ phase' = (IF SetsCtx(cfg) THEN "set" ELSE "render") /\ UNCHANGED <<cfg, d, ctx, k, out>>
SetCtx == phase = "set" /\ ctx' = <<TRUE, Palette(cfg)>> /\ phase' = "render" /\ UNCHANGED <<cfg, d, uses, k, out>>
Lookup == /\ phase = "render" /\ k <= Len(uses)
          /\ LET x == uses[k][3] IN out' = Append(out, IF x = Black THEN 0 ELSE IF ctx[1] THEN Dense(ctx[2], x) ELSE x)
          /\ k' = k + 1 /\ UNCHANGED <<cfg, d, phase, ctx, uses>>
EmitTable == phase = "render" /\ k > Len(uses) /\ phase' = "done" /\ ctx' = <<FALSE, {}>> /\ UNCHANGED <<cfg, d, uses, k, out>>
Next == Pick \/ Begin \/ SetCtx \/ Lookup \/ EmitTable
Spec == Init /\ [][Next]_vars

Table == LET S == Palette(cfg) n == Cardinality(S) IN [i \in 1..n |-> CHOOSE x \in S : Cardinality({y \in S : y <= x}) = i]
\* C12 on the model: every index refers to the table entry of the requested colour
Resolves == phase = "done" => \A j \in 1..Len(out) :
               IF uses[j][3] = Black THEN out[j] = 0 ELSE out[j] \in 1..Len(Table) /\ Table[out[j]] = uses[j][3]
Emit == phase = "done" => PrintT(ToJson([cfg |-> cfg, uses |-> uses, out |-> out, tbl |-> Table]))
=============================================================================
