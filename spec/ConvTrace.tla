----------------------------- MODULE ConvTrace -----------------------------
(* Trace validation for Converter.tla.  One behaviour per recorded run of the real
   LibreOfficeConverter against a fake executable: the recorded events are the invocations
   the fake executable logged itself (<<"version", exe>> / <<"convert", exe, k>>); every
   other step of Converter.tla is silent.  The scenario record is taken from the trace, the
   behaviour is replayed through the actions of Converter.tla, and the end state is compared
   with what was observed (constructor outcome, convert() outcome, state of the output files). *)
EXTENDS Converter, IOUtils
All == JsonDeserialize(IOEnv.TRACE_FILE)
VARIABLES tid, l
tvars == <<vars, tid, l>>
E == All[tid].ev
Obs == All[tid].obs

TInit == /\ tid \in 1..Len(All) /\ l = 1
         /\ cv = All[tid].cv /\ d = 11 /\ pc = "resolve" /\ exe = "" /\ log = <<>> /\ k = 1
         /\ outfiles = [i \in 1..2 |-> IF All[tid].cv.pre = i THEN "old" ELSE "absent"]
         /\ ctor = "" /\ result = ""
Silent == (Resolve \/ CheckVersion \/ MkOutDir \/ CheckInputs \/ CheckExisting \/ CheckOutput) /\ UNCHANGED <<tid, l>>
VersionMatches == l <= Len(E) /\ E[l][1] = "version" /\ E[l][2] = exe
ConvertMatches == l <= Len(E) /\ E[l][1] = "convert" /\ E[l][2] = exe /\ E[l][3] = k
EvVersion == pc = "runversion" /\ VersionMatches /\ RunVersion /\ l' = l + 1 /\ UNCHANGED tid
EvConvert == pc = "runconvert" /\ ConvertMatches /\ RunConvert /\ l' = l + 1 /\ UNCHANGED tid
Mismatch == (pc = "runversion" /\ ~VersionMatches) \/ (pc = "runconvert" /\ ~ConvertMatches)
Reasons == (IF Mismatch THEN {"event " \o ToString(l) \o " is not the invocation the specification takes at " \o pc} ELSE {})
     \cup (IF pc = "done" /\ l # Len(E) + 1 THEN {"unconsumed invocations"} ELSE {})
     \cup (IF pc = "done" /\ ctor # Obs.ctor THEN {"constructor: specified " \o ctor \o ", observed " \o Obs.ctor} ELSE {})
     \cup (IF pc = "done" /\ result # Obs.result THEN {"convert: specified " \o result \o ", observed " \o Obs.result} ELSE {})
     \cup (IF pc = "done" /\ <<outfiles[1], outfiles[2]>> # <<Obs.outfiles[1], Obs.outfiles[2]>> THEN {"output files differ"} ELSE {})
Finish == /\ (pc = "done" \/ Mismatch)
          /\ PrintT(ToJson([id |-> All[tid].id, bad |-> Reasons]))
          /\ pc' = "reported" /\ UNCHANGED <<cv, d, exe, log, k, outfiles, ctor, result, tid, l>>
TNext == Silent \/ EvVersion \/ EvConvert \/ Finish
TSpec == TInit /\ [][TNext]_tvars
=============================================================================
