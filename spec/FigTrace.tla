------------------------------- MODULE FigTrace -------------------------------
(* Property-level trace specification for C16 (and the figure part of C06): consumes the blocks
   of a figure document read back from a real encode, one Emit* step each. *)
EXTENDS Naturals, Integers, Sequences, FiniteSets, TLC, Json, IOUtils, FigProps
CONSTANT Judge
All == JsonDeserialize(IOEnv.TRACE_FILE)
VARIABLES tid, l, bad
vars == <<tid, l, bad>>
E(t) == All[t].ev
Holds(name, c, ev, pos) ==
  CASE name = "C16_OnePerPage" -> C16_OnePerPage(c, ev, pos)
    [] name = "C16_Kind" -> C16_Kind(c, ev, pos)
    [] name = "C16_Pixels" -> C16_Pixels(c, ev, pos)
    [] name = "C16_Goal" -> C16_Goal(c, ev, pos)
    [] name = "C16_Bytes" -> C16_Bytes(c, ev, pos)
    [] name = "C16_Captions" -> C16_Captions(c, ev, pos)
    [] name = "C06_FigBreak" -> C06_FigBreak(c, ev, pos)
    [] name = "C06_FigSubline" -> C06_FigSubline(c, ev, pos)
Init == tid \in 1..Len(All) /\ l = 1 /\ bad = {}
Failing(t, pos) == {y \in Judge : ~Holds(y, All[t].c, E(t), pos)}
Consume(kind) == /\ l <= Len(E(tid)) /\ E(tid)[l].k = kind
                 /\ bad' = bad \cup {[cl |-> y, at |-> l] : y \in Failing(tid, l)} /\ l' = l + 1 /\ UNCHANGED tid
ConsumeBreak == Consume("break")
ConsumeTitle == Consume("title")
ConsumePict == Consume("pict")
ConsumeFoot == Consume("foot")
ConsumeSrc == Consume("src")
ConsumeOther == Consume("other") \/ Consume("subline")
EndDoc == /\ l = Len(E(tid)) + 1 /\ bad' = bad \cup {[cl |-> y, at |-> l] : y \in Failing(tid, l)} /\ l' = l + 1 /\ UNCHANGED tid
Finish == /\ l = Len(E(tid)) + 2 /\ PrintT(ToJson([id |-> All[tid].id, bad |-> bad])) /\ l' = l + 1 /\ UNCHANGED <<tid, bad>>
Next == ConsumeBreak \/ ConsumeTitle \/ ConsumePict \/ ConsumeFoot \/ ConsumeSrc \/ ConsumeOther \/ EndDoc \/ Finish
Spec == Init /\ [][Next]_vars
=============================================================================
