------------------------------ MODULE MultiTrace ------------------------------
(* Property-level trace specification for multi-section documents.  Each step consumes one table
   row read back: k ("colhdr" "data" "foot_t" "src_t"), sec, r, tx (cell texts), cx (cell boundaries),
   top / bot (border styles).  c.secs[s] = [n, m, rows (expected texts)], c.W, c.pagefirst, c.pagelast. *)
EXTENDS Naturals, Integers, Sequences, FiniteSets, TLC, Json, IOUtils
CONSTANT Judge
All == JsonDeserialize(IOEnv.TRACE_FILE)
VARIABLES tid, l, bad
vars == <<tid, l, bad>>
E(t) == All[t].ev
Abs(x) == IF x < 0 THEN -x ELSE x
DataIdx(ev) == {j \in 1..Len(ev) : ev[j].k = "data"}
RECURSIVE TotalRows(_, _)
TotalRows(secs, s) == IF s = 0 THEN 0 ELSE TotalRows(secs, s - 1) + secs[s].n
\* C02, section by section in list order: the k-th data row is the next row of the section list
PrevData(ev, pos) == LET S == {j \in DataIdx(ev) : j < pos} IN IF S = {} THEN 0 ELSE CHOOSE j \in S : \A y \in S : y <= j
FirstNonEmptyFrom(secs, s) == LET S == {q \in s..Len(secs) : secs[q].n > 0} IN IF S = {} THEN 0 ELSE CHOOSE q \in S : \A y \in S : q <= y
M02_Order(x, ev, pos) ==
  IF pos <= Len(ev)
  THEN ev[pos].k = "data" =>
         LET q == PrevData(ev, pos) IN
           IF q = 0 THEN ev[pos].sec = FirstNonEmptyFrom(x.secs, 1) /\ ev[pos].r = 1
           ELSE IF ev[q].r < x.secs[ev[q].sec].n THEN ev[pos].sec = ev[q].sec /\ ev[pos].r = ev[q].r + 1
           ELSE ev[pos].sec = FirstNonEmptyFrom(x.secs, ev[q].sec + 1) /\ ev[pos].r = 1
  ELSE Cardinality(DataIdx(ev)) = TotalRows(x.secs, Len(x.secs))
M02_Text(x, ev, pos) ==
  (pos <= Len(ev) /\ ev[pos].k = "data" /\ ev[pos].sec \in 1..Len(x.secs) /\ ev[pos].r \in 1..x.secs[ev[pos].sec].n) =>
     ev[pos].tx = x.secs[ev[pos].sec].rows[ev[pos].r]
\* C08 per section: every row ends at the table width; data rows divide it equally (equal relative widths)
M08_RightEdge(x, ev, pos) == pos <= Len(ev) => (Len(ev[pos].cx) > 0 /\ ev[pos].cx[Len(ev[pos].cx)] = x.W)
\* secs[s].relw = relative widths of the displayed columns (integers)
RECURSIVE SumTo(_, _)
SumTo(w, j) == IF j = 0 THEN 0 ELSE SumTo(w, j - 1) + w[j]
M08_Proportional(x, ev, pos) ==
  (pos <= Len(ev) /\ ev[pos].k = "data" /\ ev[pos].sec \in 1..Len(x.secs)) =>
     LET m == x.secs[ev[pos].sec].m
         w == x.secs[ev[pos].sec].relw
         tot == SumTo(w, m)
     IN /\ Len(ev[pos].cx) = m
        /\ \A j \in 1..m : Abs(ev[pos].cx[j] * tot - x.W * SumTo(w, j)) <= tot
\* a header row has the cell boundaries of the data rows of its section (spanning heading rows may lie between)
NextDataAfter(ev, pos) == LET S == {j \in DataIdx(ev) : j > pos} IN IF S = {} THEN 0 ELSE CHOOSE j \in S : \A y \in S : j <= y
M08_HeaderAligned(x, ev, pos) ==
  (pos <= Len(ev) /\ ev[pos].k = "colhdr") =>
     LET q == NextDataAfter(ev, pos) IN (q # 0 /\ ev[q].sec = ev[pos].sec) => ev[pos].cx = ev[q].cx
\* C07 first/last clauses
AllEq(s, v) == \A j \in 1..Len(s) : s[j] = v
M07_DocTop(x, ev, pos) == (pos = 1 /\ pos <= Len(ev)) => AllEq(ev[1].top, x.pagefirst)
M07_DocBottom(x, ev, pos) == (pos = Len(ev) /\ pos >= 1) => AllEq(ev[pos].bot, x.pagelast)
Holds(name, x, ev, pos) ==
  CASE name = "M02_Order" -> M02_Order(x, ev, pos) [] name = "M02_Text" -> M02_Text(x, ev, pos)
    [] name = "M08_RightEdge" -> M08_RightEdge(x, ev, pos) [] name = "M08_Proportional" -> M08_Proportional(x, ev, pos)
    [] name = "M08_HeaderAligned" -> M08_HeaderAligned(x, ev, pos)
    [] name = "M07_DocTop" -> M07_DocTop(x, ev, pos) [] name = "M07_DocBottom" -> M07_DocBottom(x, ev, pos)
Init == tid \in 1..Len(All) /\ l = 1 /\ bad = {}
Failing(t, pos) == {y \in Judge : ~Holds(y, All[t].c, E(t), pos)}
ConsumeRow == /\ l <= Len(E(tid)) + 1 /\ bad' = bad \cup {[cl |-> y, at |-> l] : y \in Failing(tid, l)} /\ l' = l + 1 /\ UNCHANGED tid
Finish == /\ l = Len(E(tid)) + 2 /\ PrintT(ToJson([id |-> All[tid].id, bad |-> bad])) /\ l' = l + 1 /\ UNCHANGED <<tid, bad>>
Next == ConsumeRow \/ Finish
Spec == Init /\ [][Next]_vars
=============================================================================
