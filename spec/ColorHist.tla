------------------------------ MODULE ColorHist ------------------------------
(* Staged history generator on top of ColorCtx (C14): the program of the single thread "A"
   is built one operation per step (so that -simulate can draw histories of length 4), then
   executed by ColorCtx's actions. *)
EXTENDS ColorCtxMC
CONSTANTS MaxHist, ExactLen     \* ExactLen: only histories of exactly MaxHist prior operations
VARIABLE picking
hvars == <<prog, ctx, pc, h, k, cur, res, body, built, picking>>
HInit == /\ prog = [t \in Threads |-> <<>>] /\ picking = TRUE
         /\ ctx = [s \in Slots |-> <<FALSE, {}>>]
         /\ pc = [t \in Threads |-> "idle"] /\ h = [t \in Threads |-> 1] /\ k = [t \in Threads |-> 1]
         /\ cur = [t \in Threads |-> <<>>] /\ res = [t \in Threads |-> <<>>]
         /\ body = [f \in Fams |-> 0] /\ built = [x \in DocIds |-> 0]
PickOp == /\ picking /\ Len(prog["A"]) < MaxHist
          /\ \E op \in HistOps : prog' = [prog EXCEPT !["A"] = Append(@, op)]
          /\ UNCHANGED <<ctx, pc, h, k, cur, res, body, built, picking>>
PickTarget == /\ picking /\ (ExactLen => Len(prog["A"]) = MaxHist)
              /\ \E tg \in Targets : prog' = [prog EXCEPT !["A"] = Append(@, Enc(tg))]
              /\ picking' = FALSE /\ UNCHANGED <<ctx, pc, h, k, cur, res, body, built>>
HNext == PickOp \/ PickTarget \/ (~picking /\ Next /\ UNCHANGED picking)
HSpec == HInit /\ [][HNext]_hvars
HTerminated == ~picking /\ Terminated
HIsolation == ~picking => Isolation
HCtxReleased == HTerminated => \A s \in Slots : ~ctx[s][1]
HEmit == HTerminated => PrintT(ToJson([prog |-> prog["A"], res |-> res["A"],
                                        pure |-> [j \in 1..Len(res["A"]) |-> IF res["A"][j][1] = "ok" THEN res["A"][j] = Alone(res["A"][j][2]) ELSE TRUE]]))
=============================================================================
