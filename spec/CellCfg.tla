------------------------------ MODULE CellCfg ------------------------------
(* Constant-level part of the C09 specification, shared by the model (CellFormat) and the
   trace specification (CellTrace): value matrices, column mapping, expected values. *)
EXTENDS Naturals, Integers, Sequences, FiniteSets, TLC

\* number of legal values per attribute (must agree with harness/cellformat.py ATTRS)
KOf(a) == CASE a \in {"text_font"} -> 10
            [] a \in {"text_font_size"} -> 8
            [] a \in {"text_format"} -> 6
            [] a \in {"text_color", "text_background_color", "border_color_left", "border_color_right",
                      "border_color_top", "border_color_bottom"} -> 5
            [] a \in {"text_justification", "text_indent_first", "text_indent_left", "text_indent_right",
                      "text_space_before", "text_space_after"} -> 4
            [] a \in {"text_space", "border_width", "cell_vertical_justification", "cell_height", "cell_justification"} -> 3
            [] a \in {"text_hyphenation"} -> 2
            [] a \in {"border_left", "border_right", "border_top", "border_bottom"} -> 5
RowLevel(a) == a \in {"cell_height", "cell_justification"}

\* ---- derived ----
HasGroupCol(x) == x.strat # "plain"
NGroup(x) == CASE x.strat = "plain" -> 0 [] x.strat \in {"pb2span", "subpb"} -> 2 [] OTHER -> 1
NOrig(x) == x.m + NGroup(x)
\* original (0-based) positions of the group columns: the first is inserted before data column
\* GroupPos, the second directly after it ("adjacent") or one data column further ("apart")
GroupPos(x) == CASE x.gpos = "first" -> 0 [] x.gpos = "last" -> x.m [] OTHER -> IF x.m \div 2 = 0 THEN 1 ELSE x.m \div 2
Min2(a, b) == IF a < b THEN a ELSE b
GroupIdx(x) == IF NGroup(x) = 0 THEN {}
               ELSE IF NGroup(x) = 1 THEN {GroupPos(x)}
               ELSE {GroupPos(x), Min2(GroupPos(x) + (IF x.g2 = "apart" THEN 2 ELSE 1), NOrig(x) - 1)}
Removed(x) == x.strat \in {"pbspan", "pbnp", "subline", "pb2span", "subpb"}    \* group columns not displayed ("pbcol" keeps its column)
RemovedIdx(x) == IF Removed(x) THEN GroupIdx(x) ELSE {}
Kept(x) == (0..(NOrig(x) - 1)) \ RemovedIdx(x)
\* original index of displayed column j (0-based): the (j+1)-th kept column
OrigCol(x, j) == CHOOSE c \in Kept(x) : Cardinality({y \in Kept(x) : y < c}) = j
NDisp(x) == Cardinality(Kept(x))
\* page start (1-based row) of row rr
Breaks(x) == x.strat \in {"pbnp", "subline", "pbcol", "subpb"}
PageStart(x, rr) ==
  IF x.strat = "plain" THEN ((rr - 1) \div x.cap) * x.cap + 1
  ELSE IF Breaks(x) THEN (LET S == {j \in 1..rr : x.grp[j]} IN CHOOSE j \in S : \A y \in S : y <= j)
  ELSE 1
V(x, r0, c0) == LET K == KOf(x.attr) IN
  CASE x.shape = "scalar" -> x.salt % K
    [] x.shape = "col"    -> IF RowLevel(x.attr) THEN x.salt % K ELSE (3 * c0 + x.salt) % K
    [] x.shape = "matrix" -> IF RowLevel(x.attr) THEN (5 * r0 + x.salt) % K ELSE (5 * r0 + 3 * c0 + x.salt) % K
Expected(x, rr, j) == V(x, rr - 1, OrigCol(x, j))
=============================================================================
