----------------------------- MODULE ExportTrace -----------------------------
(* Property-level trace specification for C18.  One behaviour per export run on the real
   code: each step consumes one recorded file-system event (op, where) -- where is "target",
   "beside" (another entry of the target's directory), "tmp", "parent", "other" -- and the end
   state judges the snapshot taken after the call (x.after) against the one before. *)
EXTENDS Naturals, Integers, Sequences, FiniteSets, TLC, Json, IOUtils
CONSTANT Judge
All == JsonDeserialize(IOEnv.TRACE_FILE)
VARIABLES tid, l, bad
vars == <<tid, l, bad>>
E(t) == All[t].ev
Writes(e) == e.op \in {"open_w", "move_to", "mkdir", "remove"}
\* the target path is touched only by the final step of a successful export: once it has been
\* touched, nothing follows but that same step (shutil.move is reported twice), moving the HTML
\* resource folder, and the removal of the temporary directories
C18_TargetTouchedLast(x, ev, pos) ==
  \* (an audit event is an ATTEMPT: the move of a missing converter output is recorded and then fails, so the
  \* clause constrains the order only; that a failed export left the target as it was is C18_FailureAtomic)
  (pos <= Len(ev) /\ ev[pos].where = "target" /\ Writes(ev[pos])) =>
     /\ \A j \in (pos + 1)..Len(ev) : \/ ev[j].where = "target"
                                       \/ (ev[j].where = "beside" /\ ev[j].res)
                                       \/ ev[j].op = "remove"
C18_NothingBeside(x, ev, pos) ==
  (pos <= Len(ev) /\ ev[pos].where = "beside" /\ Writes(ev[pos])) => (x.writer = "html" /\ x.outcome = "returned" /\ ev[pos].res)
C18_FailureAtomic(x, ev, pos) ==
  (pos = Len(ev) + 1 /\ x.outcome = "raised") =>
     /\ x.after.target = x.before.target          \* digest of the bytes, "" when absent
     /\ x.after.tmp = 0
     /\ x.after.beside = x.before.beside          \* listing of the parent directory without the target
C18_Success(x, ev, pos) ==
  (pos = Len(ev) + 1 /\ x.outcome = "returned") =>
     /\ x.after.target = x.expected
     /\ x.after.tmp = 0
     /\ x.after.beside = (IF x.writer = "html" THEN x.before.beside \o x.resources ELSE x.before.beside)
\* nothing was made to fail and the converter (if any) delivers: the export completes (write_rtf "creating missing parent
\* directories"; "on success the converter's output ends up at the requested path")
C18_Completes(x, ev, pos) ==
  (pos = Len(ev) + 1 /\ x.fault = 0 /\ x.fsfault = 0 /\ ~x.fault_fired /\ ~x.fs_fired /\ x.conv \in {"ok", "ok_empty"}
     /\ x.converter # "default") => x.outcome = "returned"
C18_Raises(x, ev, pos) ==
  (pos = Len(ev) + 1) =>
     /\ (x.conv \in {"raise_before", "raise_after"} /\ x.converter = "stub" /\ x.reached_convert) => (x.outcome = "raised" /\ x.exc = "ConverterBoom")
     /\ (x.conv \in {"ret_list", "ret_none", "ret_str"} /\ x.converter = "stub" /\ x.reached_convert) => (x.outcome = "raised" /\ x.exc = "TypeError")
     /\ (x.conv = "ret_missing" /\ x.converter = "stub" /\ x.reached_convert) => x.outcome = "raised"
     /\ (x.conv \in {"raise_before", "raise_after", "silent"} /\ x.converter \in {"real", "onpath"} /\ x.reached_convert) => (x.outcome = "raised" /\ x.exc = "RuntimeError")
     /\ (x.converter = "default" /\ x.fault = 0 /\ ~x.fs_fired) => (x.outcome = "raised" /\ x.exc = "FileNotFoundError")
     /\ (x.fault # 0 /\ x.flavour = "base" /\ x.fault_fired) => (x.outcome = "raised" /\ x.exc = "InjectedBase")
     /\ (x.fsfault # 0 /\ x.outcome = "raised") => x.exc = "InjectedOSError"
     /\ x.outcome \in {"raised", "returned"}
Holds(name, x, ev, pos) ==
  CASE name = "C18_TargetTouchedLast" -> C18_TargetTouchedLast(x, ev, pos)
    [] name = "C18_NothingBeside" -> C18_NothingBeside(x, ev, pos)
    [] name = "C18_FailureAtomic" -> C18_FailureAtomic(x, ev, pos)
    [] name = "C18_Success" -> C18_Success(x, ev, pos)
    [] name = "C18_Raises" -> C18_Raises(x, ev, pos)
    [] name = "C18_Completes" -> C18_Completes(x, ev, pos)
Init == tid \in 1..Len(All) /\ l = 1 /\ bad = {}
Failing(t, pos) == {y \in Judge : ~Holds(y, All[t].c, E(t), pos)}
ConsumeFsEvent == /\ l <= Len(E(tid)) + 1 /\ bad' = bad \cup {[cl |-> y, at |-> l] : y \in Failing(tid, l)}
                  /\ l' = l + 1 /\ UNCHANGED tid
Finish == /\ l = Len(E(tid)) + 2 /\ PrintT(ToJson([id |-> All[tid].id, bad |-> bad]))
          /\ l' = l + 1 /\ UNCHANGED <<tid, bad>>
Next == ConsumeFsEvent \/ Finish
Spec == Init /\ [][Next]_vars
=============================================================================
