------------------------------ MODULE RtfStream ------------------------------
(***************************************************************************)
(* C01: the structural grammar of a well-formed rtflite output, as a         *)
(* pushdown acceptor over the structural events an RTF reader produces:      *)
(*   O  group open       C  group close      K  \rtf1 (signature)            *)
(*   T  \trowd           X  \cellx<v>        E  \cell       R  \row           *)
(*   P  \page                                                               *)
(* State: depth, closed (the document group has been closed), the cell       *)
(* boundaries declared (ncellx, lastx) and cell contents seen (ncell) of the  *)
(* current row.  One behaviour per encoded document (trace specification):    *)
(* each action consumes one event, updates the acceptor state and records     *)
(* the clauses it violates, so every trace gets a total verdict.              *)
(***************************************************************************)
EXTENDS Naturals, Integers, Sequences, FiniteSets, TLC, Json, IOUtils
All == JsonDeserialize(IOEnv.TRACE_FILE)
VARIABLES tid, l, depth, closed, ncellx, ncell, lastx, inrow, bad
vars == <<tid, l, depth, closed, ncellx, ncell, lastx, inrow, bad>>
Ev(t) == All[t].ev
Init == /\ tid \in 1..Len(All) /\ l = 1 /\ depth = 0 /\ closed = FALSE /\ ncellx = 0 /\ ncell = 0 /\ lastx = 0
        /\ inrow = FALSE /\ bad = {}
Cur == Ev(tid)[l]
IsEvent(k) == l <= Len(Ev(tid)) /\ Cur[1] = k
Mark(S) == bad' = bad \cup {[cl |-> c, at |-> l] : c \in S}
After == IF closed THEN {"NothingAfterClose"} ELSE {}
Open == /\ IsEvent("O") /\ depth' = depth + 1
        /\ Mark(After \cup (IF l # 1 /\ depth = 0 THEN {"OneTopLevelGroup"} ELSE {}))
        /\ l' = l + 1 /\ UNCHANGED <<tid, closed, ncellx, ncell, lastx, inrow>>
Close == /\ IsEvent("C") /\ depth' = depth - 1 /\ closed' = (closed \/ depth = 1)
         /\ Mark(After \cup (IF depth <= 0 THEN {"Balanced"} ELSE {}))
         /\ l' = l + 1 /\ UNCHANGED <<tid, ncellx, ncell, lastx, inrow>>
Signature == /\ IsEvent("K")
             /\ Mark(After \cup (IF l = 2 /\ depth = 1 /\ Cur[2] = "rtf" /\ Cur[3] = 1 THEN {} ELSE {"Signature"}))
             /\ l' = l + 1 /\ UNCHANGED <<tid, depth, closed, ncellx, ncell, lastx, inrow>>
Trowd == /\ IsEvent("T") /\ ncellx' = 0 /\ ncell' = 0 /\ lastx' = 0 /\ inrow' = TRUE
         /\ Mark(After \cup (IF depth < 1 THEN {"Balanced"} ELSE {}))
         /\ l' = l + 1 /\ UNCHANGED <<tid, depth, closed>>
Cellx == /\ IsEvent("X") /\ ncellx' = ncellx + 1 /\ lastx' = Cur[2]
         /\ Mark(After \cup (IF Cur[2] > 0 /\ Cur[2] >= lastx THEN {} ELSE {"CellBoundaries"}) \cup (IF inrow THEN {} ELSE {"RowStructure"}))
         /\ l' = l + 1 /\ UNCHANGED <<tid, depth, closed, ncell, inrow>>
Cell == /\ IsEvent("E") /\ ncell' = ncell + 1
        /\ Mark(After \cup (IF inrow /\ ncell + 1 <= ncellx THEN {} ELSE {"RowStructure"}))
        /\ l' = l + 1 /\ UNCHANGED <<tid, depth, closed, ncellx, lastx, inrow>>
Row == /\ IsEvent("R") /\ inrow' = FALSE
       /\ Mark(After \cup (IF inrow /\ ncell = ncellx /\ ncellx >= 1 THEN {} ELSE {"RowStructure"}))
       /\ l' = l + 1 /\ UNCHANGED <<tid, depth, closed, ncellx, ncell, lastx>>
Page == /\ IsEvent("P") /\ Mark(After \cup (IF inrow THEN {"RowStructure"} ELSE {}))
        /\ l' = l + 1 /\ UNCHANGED <<tid, depth, closed, ncellx, ncell, lastx, inrow>>
\* end of the event stream: clauses about the whole document, and the expected outcome
EndOfDoc == /\ l = Len(Ev(tid)) + 1
            /\ LET x == All[tid].c IN
                 Mark((IF x.outcome = x.expected THEN {} ELSE {"Outcome"})
                      \cup (IF x.outcome # "ok" THEN {} ELSE
                              (IF depth = 0 /\ closed THEN {} ELSE {"Balanced"})
                              \cup (IF x.lexerrs = 0 THEN {} ELSE {"Lexical"})
                              \cup (IF x.trailing = 0 /\ x.leading = 0 THEN {} ELSE {"NothingAfterClose"})
                              \cup (IF inrow THEN {"RowStructure"} ELSE {})
                              \cup (IF Len(Ev(tid)) >= 2 THEN {} ELSE {"Signature"})))
            /\ l' = l + 1 /\ UNCHANGED <<tid, depth, closed, ncellx, ncell, lastx, inrow>>
Finish == /\ l = Len(Ev(tid)) + 2 /\ PrintT(ToJson([id |-> All[tid].id, bad |-> bad]))
          /\ l' = l + 1 /\ UNCHANGED <<tid, depth, closed, ncellx, ncell, lastx, inrow, bad>>
Next == Open \/ Close \/ Signature \/ Trowd \/ Cellx \/ Cell \/ Row \/ Page \/ EndOfDoc \/ Finish
Spec == Init /\ [][Next]_vars
\* sanity of the acceptor itself
TypeOK == depth \in Int /\ ncell \in Nat /\ ncellx \in Nat
=============================================================================
