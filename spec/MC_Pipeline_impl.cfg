SPECIFICATION Spec
CONSTANTS
  NSet = {0, 4}
  Heights = {1, 2}
  NrowSet = {3, 5}
  Strategies = {"plain", "pageby", "subline"}
  LevelSet = {1, 2}
  HdrSet = {"default", "explicit"}
  FootSet = {"none", "table"}
  SrcSet = {"none"}
  PlaceSet = {"last", "all"}
  TitleSet = {TRUE}
  SublineSet = {FALSE}
  NewPageSet = {FALSE, TRUE}
  PbRowSet = {"column", "first_row"}
  PbHdrSet = {TRUE}
  DivSet = {FALSE}
  ReserveDefaultHeader = FALSE
  BudgetContinuation = FALSE
  ChargeRenderedOnly = FALSE
INVARIANT TypeOK
INVARIANT M_C02_Order
INVARIANT M_C03_BudgetModuloKnown
INVARIANT M_C04_NonEmpty
INVARIANT M_C04_Contiguous
INVARIANT M_C04_Forced
INVARIANT M_C04_OnlyWhenRequiredModuloKnown
INVARIANT M_C04_NoMix
INVARIANT M_C05_Heads
INVARIANT M_C05_NotStranded
INVARIANT M_C05_NoHeadsWhenColumn
INVARIANT M_C05_Subline
INVARIANT M_C05_DividerKeepsRow
INVARIANT M_C06_Order
INVARIANT M_C06_Placement
INVARIANT M_C06_ColHdr
PROPERTY PagesMonotone
