------------------------------ MODULE DocConfig ------------------------------
(***************************************************************************)
(* C01: the space of accepted document configurations, as a staged           *)
(* generator (one Pick per dimension), followed by the skeleton every        *)
(* encoding path emits (Document: Start, FontTbl, ColorTbl, HdrFtr,           *)
(* PageSettings, Section(i)*, Close) and the only data-dependent refusal.     *)
(* Deviation flags: HeaderOffOk (as_colheader=False with the default header   *)
(* encodes) and HalfPointOk (half-point font sizes encode).                   *)
(***************************************************************************)
EXTENDS Naturals, Integers, Sequences, FiniteSets, TLC, Json
CONSTANTS Paths, Strats, HdrModes, NSet, MSet, BoolSet, PlaceSet, FootSet, HFSet, PaperSet, NrowSet, ShapeSet, SizeSet, KindSet, ContigSet,
          PriorSet,                \* "none" | "narrow": the body object (one-value width shorthand) served a narrower table before
          VocabSet,                \* "basic" | "full": the cells cycle through EVERY legal keyword of the enumerated cell options
          KeyTypeSet, SeqSet,      \* type of the grouping-column values (str/int/date/null) and spelling of page_by etc. (list/tuple/str)
          HeaderOffOk, HalfPointOk
VARIABLES cfg, d, phase, skel, outcome
vars == <<cfg, d, phase, skel, outcome>>
Cfg0 == [path |-> "single", strat |-> "plain", hdr |-> "default", n |-> 1, m |-> 1, title |-> FALSE, subline |-> FALSE, foot |-> "none",
         src |-> "none", pghdr |-> FALSE, pgftr |-> FALSE, ptitle |-> "all", pfoot |-> "last", psrc |-> "last", paper |-> "letter",
         nrow |-> 40, shape |-> "scalar", size |-> "int", kind |-> "str", contig |-> TRUE, colour |-> FALSE, nsec |-> 1, keytype |-> "str", seq |-> "list", prior |-> "none", vocab |-> "basic"]
Dims == << <<"path", Paths>>, <<"strat", Strats>>, <<"hdr", HdrModes>>, <<"n", NSet>>, <<"m", MSet>>, <<"title", BoolSet>>,
           <<"subline", BoolSet>>, <<"foot", FootSet>>, <<"src", FootSet>>, <<"pghdr", HFSet>>,
           <<"pgftr", HFSet>>, <<"ptitle", PlaceSet>>, <<"pfoot", PlaceSet>>, <<"psrc", PlaceSet>>, <<"paper", PaperSet>>, <<"nrow", NrowSet>>,
           <<"shape", ShapeSet>>, <<"size", SizeSet>>, <<"kind", KindSet>>, <<"contig", ContigSet>>, <<"colour", BoolSet>>, <<"nsec", {2, 3}>>,
           <<"keytype", KeyTypeSet>>, <<"seq", SeqSet>>, <<"prior", PriorSet>>, <<"vocab", VocabSet>> >>
\* dependent restrictions (configurations the constructors accept)
Dom(k, c) == LET f == Dims[k][1]  S == Dims[k][2] IN
  CASE f = "strat" -> IF c.path = "figure" THEN {"plain"} ELSE S
    [] f = "hdr" -> IF c.path = "figure" THEN {"default"} ELSE S
    [] f = "foot" -> IF c.path = "figure" THEN S \ {"table"} ELSE S
    [] f = "src" -> IF c.path = "figure" THEN S \ {"table"} ELSE S
    [] f = "contig" -> IF c.strat = "groupby" /\ c.n >= 3 THEN S ELSE {TRUE}
    [] f = "nsec" -> IF c.path = "multi" THEN S ELSE {1}
    [] f = "keytype" -> IF c.strat = "plain" \/ c.path = "figure" THEN {"str"} ELSE S
    [] f = "seq" -> IF c.strat = "plain" \/ c.path = "figure" THEN {"list"} ELSE S
    [] f = "prior" -> IF c.path = "single" /\ c.strat = "plain" /\ c.shape = "scalar" /\ c.m >= 2 THEN S ELSE {"none"}
    [] f = "vocab" -> IF c.path = "figure" THEN {"basic"} ELSE S
    [] OTHER -> S
Init == cfg = Cfg0 /\ d = 1 /\ phase = "pick" /\ skel = <<>> /\ outcome = "none"
Pick == /\ phase = "pick" /\ d <= Len(Dims)
        /\ \E v \in Dom(d, cfg) : cfg' = [cfg EXCEPT ![Dims[d][1]] = v]
        /\ d' = d + 1 /\ UNCHANGED <<phase, skel, outcome>>
Refuses(c) == c.strat = "groupby" /\ ~c.contig
Crashes(c) == \/ (~HeaderOffOk /\ c.hdr = "off" /\ c.path = "single")
              \/ (~HalfPointOk /\ c.size = "half" /\ c.path # "figure" /\ (c.n > 0 \/ c.hdr \in {"explicit", "multi", "multi2"}))
Start == /\ phase = "pick" /\ d > Len(Dims)
         /\ IF Refuses(cfg) THEN outcome' = "ValueError" /\ phase' = "done" /\ skel' = skel
            ELSE IF Crashes(cfg) THEN outcome' = "crash" /\ phase' = "done" /\ skel' = skel
            ELSE outcome' = "ok" /\ phase' = "emit" /\ skel' = <<"start", "fonttbl">>
         /\ UNCHANGED <<cfg, d>>
ColorTbl == phase = "emit" /\ Len(skel) = 2 /\ skel' = skel \o (IF cfg.colour THEN <<"colortbl">> ELSE <<>>) \o <<"hdrftr", "pagesettings">>
            /\ phase' = "sections" /\ UNCHANGED <<cfg, d, outcome>>
Section == /\ phase = "sections" /\ skel' = skel \o [i \in 1..cfg.nsec |-> "section"] \o <<"close">>
           /\ phase' = "done" /\ UNCHANGED <<cfg, d, outcome>>
Next == Pick \/ Start \/ ColorTbl \/ Section
Spec == Init /\ [][Next]_vars
\* C01 on the model: accepted configurations encode, except the documented refusal
OnlyDocumentedRefusal == phase = "done" => (outcome = (IF Refuses(cfg) THEN "ValueError" ELSE "ok"))
SkeletonClosed == (phase = "done" /\ outcome = "ok") => (skel[1] = "start" /\ skel[Len(skel)] = "close")
Emit == phase = "done" => PrintT(ToJson([cfg |-> cfg, outcome |-> outcome]))
=============================================================================
