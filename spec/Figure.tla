------------------------------- MODULE Figure -------------------------------
(***************************************************************************)
(* C16: figure-only documents.  One Pick step per dimension, then one        *)
(* action per emitted part of _encode_figure_only: EmitBreak, EmitTitle,      *)
(* EmitSubline, EmitPict(i), EmitFoot, EmitSrc, NextPage.  Deviation flag RestateGeometry *)
(* (TRUE = the page break between figures restates paper size and margins).  *)
(***************************************************************************)
EXTENDS Naturals, Integers, Sequences, FiniteSets, TLC, Json, FigProps
CONSTANTS NSet, LenSet, PlaceSet, BoolSet, KindSet, ReuseSet, RestateGeometry,
          SameSet,                \* "none" | "dupfirst": the LAST entry of the figure list is the same path as the first (one image shown twice)
          SublineFollowsTitle     \* deviation flag: TRUE = the subline is shown on the pages page_title selects (FALSE: first page only)
VARIABLES cfg, d, phase, p, part, out
vars == <<cfg, d, phase, p, part, out>>
Cfg0 == [n |-> 1, wl |-> 1, hl |-> 1, ptitle |-> "all", pfoot |-> "last", psrc |-> "last", title |-> FALSE, subline |-> FALSE, foot |-> FALSE, src |-> FALSE, kinds |-> <<>>, reuse |-> FALSE, same |-> "none"]
Init == cfg = Cfg0 /\ d = 1 /\ phase = "pick" /\ p = 1 /\ part = "break" /\ out = <<>>
Pick == /\ phase = "pick" /\ d <= 13
        /\ CASE d = 1 -> \E v \in NSet : cfg' = [cfg EXCEPT !.n = v] /\ d' = 2
             [] d = 2 -> \E v \in LenSet : cfg' = [cfg EXCEPT !.wl = v] /\ d' = 3
             [] d = 3 -> \E v \in LenSet : cfg' = [cfg EXCEPT !.hl = v] /\ d' = 4
             [] d = 4 -> \E v \in BoolSet : cfg' = [cfg EXCEPT !.title = v] /\ d' = 5
             [] d = 5 -> \E v \in BoolSet : cfg' = [cfg EXCEPT !.subline = v] /\ d' = 6
             [] d = 6 -> \E v \in (IF cfg.title \/ cfg.subline THEN PlaceSet ELSE {"all"}) : cfg' = [cfg EXCEPT !.ptitle = v] /\ d' = 7
             [] d = 7 -> \E v \in BoolSet : cfg' = [cfg EXCEPT !.foot = v] /\ d' = 8
             [] d = 8 -> \E v \in (IF cfg.foot THEN PlaceSet ELSE {"last"}) : cfg' = [cfg EXCEPT !.pfoot = v] /\ d' = 9
             [] d = 9 -> \E v \in BoolSet : cfg' = [cfg EXCEPT !.src = v] /\ d' = 10
             [] d = 10 -> \E v \in (IF cfg.src THEN PlaceSet ELSE {"last"}) : cfg' = [cfg EXCEPT !.psrc = v] /\ d' = 11
             [] d = 11 -> IF Len(cfg.kinds) >= cfg.n THEN cfg' = cfg /\ d' = 12
                          ELSE \E v \in KindSet : cfg' = [cfg EXCEPT !.kinds = Append(@, v)] /\ d' = 11
             \* reuse: an earlier document of the same process embedded OTHER image bytes from the same paths (files
             \* rewritten in place, same time stamp); images are read when the document is encoded, not remembered
             [] d = 12 -> \E v \in ReuseSet : cfg' = [cfg EXCEPT !.reuse = v] /\ d' = 13
             [] d = 13 -> \E v \in (IF cfg.n >= 2 THEN SameSet ELSE {"none"}) : cfg' = [cfg EXCEPT !.same = v] /\ d' = 14
        /\ UNCHANGED <<phase, p, part, out>>
Start == phase = "pick" /\ d = 14 /\ phase' = "emit" /\ UNCHANGED <<cfg, d, p, part, out>>
\* abstract sizes: figure i has pixel size (10 i, 10 i + 1); width list entry j is 100 j twips, height 200 j
\* the file shown at position i (the first one again at the last position when same = "dupfirst")
Eff(i) == IF cfg.same = "dupfirst" /\ i = cfg.n /\ cfg.n >= 2 THEN 1 ELSE i
Ev(k, i) == [k |-> k, p |-> p, i |-> i, fmt |-> IF k = "pict" THEN cfg.kinds[Eff(i)] ELSE "",
             picw |-> IF k = "pict" THEN 10 * Eff(i) ELSE 0, pich |-> IF k = "pict" THEN 10 * Eff(i) + 1 ELSE 0,
             wgoal |-> IF k = "pict" THEN 100 * Min(i, cfg.wl) ELSE 0, hgoal |-> IF k = "pict" THEN 200 * Min(i, cfg.hl) ELSE 0,
             dlen |-> IF k = "pict" THEN Eff(i) ELSE i, dsha |-> "s", hexok |-> TRUE, bytes |-> <<>>, geom |-> IF k = "break" /\ RestateGeometry THEN <<1>> ELSE <<>>]
Advance(next) == part' = next
EmitBreak == /\ phase = "emit" /\ part = "break"
             /\ out' = (IF p > 1 THEN Append(out, Ev("break", 0)) ELSE out) /\ Advance("title") /\ UNCHANGED <<cfg, d, phase, p>>
EmitTitle == /\ phase = "emit" /\ part = "title"
             /\ out' = (IF cfg.title /\ Show(cfg.ptitle, p, cfg.n) THEN Append(out, Ev("title", 0)) ELSE out)
             /\ Advance("subline") /\ UNCHANGED <<cfg, d, phase, p>>
EmitSubline == /\ phase = "emit" /\ part = "subline"
               /\ out' = (IF cfg.subline /\ (IF SublineFollowsTitle THEN Show(cfg.ptitle, p, cfg.n) ELSE p = 1) THEN Append(out, Ev("subline", 0)) ELSE out)
               /\ Advance("pict") /\ UNCHANGED <<cfg, d, phase, p>>
EmitPict == /\ phase = "emit" /\ part = "pict" /\ out' = Append(out, Ev("pict", p)) /\ Advance("foot") /\ UNCHANGED <<cfg, d, phase, p>>
EmitFoot == /\ phase = "emit" /\ part = "foot"
            /\ out' = (IF cfg.foot /\ Show(cfg.pfoot, p, cfg.n) THEN Append(out, Ev("foot", 0)) ELSE out)
            /\ Advance("src") /\ UNCHANGED <<cfg, d, phase, p>>
EmitSrc == /\ phase = "emit" /\ part = "src"
           /\ out' = (IF cfg.src /\ Show(cfg.psrc, p, cfg.n) THEN Append(out, Ev("src", 0)) ELSE out)
           /\ Advance("next") /\ UNCHANGED <<cfg, d, phase, p>>
NextPage == /\ phase = "emit" /\ part = "next"
            /\ IF p < cfg.n THEN p' = p + 1 /\ part' = "break" /\ phase' = phase ELSE phase' = "done" /\ UNCHANGED <<p, part>>
            /\ UNCHANGED <<cfg, d, out>>
Next == Pick \/ Start \/ EmitBreak \/ EmitTitle \/ EmitSubline \/ EmitPict \/ EmitFoot \/ EmitSrc \/ NextPage
Spec == Init /\ [][Next]_vars
MC == cfg @@ [files |-> [i \in 1..cfg.n |-> [fmt |-> cfg.kinds[Eff(i)], w |-> 10 * Eff(i), h |-> 10 * Eff(i) + 1, len |-> Eff(i), sha |-> "s", bytes |-> <<>>]],
              fw |-> [j \in 1..cfg.wl |-> 100 * j], fh |-> [j \in 1..cfg.hl |-> 200 * j], geom |-> <<1>>]
All(Cl(_, _, _)) == phase = "done" => \A l \in 1..(Len(out) + 1) : Cl(MC, out, l)
M_OnePerPage == All(C16_OnePerPage)
M_Kind == All(C16_Kind)
M_Pixels == All(C16_Pixels)
M_Goal == All(C16_Goal)
M_Bytes == All(C16_Bytes)
M_Captions == All(C16_Captions)
M_FigBreak == All(C06_FigBreak)
M_FigSubline == All(C06_FigSubline)
Emit == phase = "done" => PrintT(ToJson([cfg |-> cfg, out |-> [j \in 1..Len(out) |-> [k |-> out[j].k, p |-> out[j].p, i |-> out[j].i]]]))
=============================================================================
