------------------------------ MODULE Validate ------------------------------
(***************************************************************************)
(* C19: constructors as accept/reject steps over a decision table.           *)
(* A row of the table is (class, field, category, shape, pos): the field of   *)
(* the component class receives a value of the given shape (scalar, vector,   *)
(* matrix) whose element at position pos is invalid for the field's category. *)
(* Construct is followed by exactly one of Accept, RejectVE (ValueError incl.  *)
(* pydantic's ValidationError), RejectFNF (FileNotFoundError), Crash (any      *)
(* other exception).  Deviation flag FieldNameLookup: FALSE = the border and   *)
(* positivity validators die with AttributeError (cls.__field_name__).         *)
(***************************************************************************)
EXTENDS Naturals, Integers, Sequences, FiniteSets, TLC, Json
CONSTANTS Classes, Shapes, Positions, FieldNameLookup
VARIABLES row, phase, outcome
vars == <<row, phase, outcome>>
TableClasses == {"RTFBody", "RTFColumnHeader", "RTFFootnote", "RTFSource"}
TextClasses == {"RTFTitle", "RTFSubline", "RTFPageHeader", "RTFPageFooter"}
TextFields == {<<"text_font", "font">>, <<"text_format", "format">>, <<"text_font_size", "positive">>, <<"text_color", "colour">>,
               <<"text_background_color", "colour">>, <<"text_justification", "just">>}
TableFields == TextFields \cup
   {<<"border_left", "border">>, <<"border_right", "border">>, <<"border_top", "border">>, <<"border_bottom", "border">>,
    <<"border_first", "border">>, <<"border_last", "border">>,
    <<"border_color_left", "colour">>, <<"border_color_right", "colour">>, <<"border_color_top", "colour">>, <<"border_color_bottom", "colour">>,
    <<"cell_vertical_justification", "valign">>, <<"cell_justification", "just">>,
    <<"col_rel_width", "positive">>, <<"border_width", "positive">>, <<"cell_height", "positive">>}
PageFields == {<<"orientation", "orientation">>, <<"border_first", "border">>, <<"border_last", "border">>,
               <<"page_title", "placement">>, <<"page_footnote", "placement">>, <<"page_source", "placement">>,
               <<"width", "positive">>, <<"height", "positive">>, <<"nrow", "positive">>, <<"col_width", "positive">>, <<"margin", "length6">>}
BodyOnly == {<<"pageby_row", "pageby_row">>, <<"new_page", "cross_new_page">>}
FigureFields == {<<"figures", "missing_file">>}
DocFields == {<<"group_by", "missing_column">>, <<"page_by", "missing_column">>, <<"subline_by", "missing_column">>,
              <<"df+figure", "cross_both">>, <<"neither", "cross_neither">>, <<"sections", "cross_lengths">>, <<"headers", "cross_lengths">>}
FieldsOf(c) == CASE c \in TextClasses -> TextFields
                 [] c = "RTFBody" -> TableFields \cup BodyOnly
                 [] c \in TableClasses -> TableFields
                 [] c = "RTFPage" -> PageFields
                 [] c = "RTFFigure" -> FigureFields
                 [] c = "RTFDocument" -> DocFields
\* shapes a field accepts: page, figure and document settings are scalars; col_rel_width is a vector
ShapesOf(c, f) == IF c \in {"RTFPage", "RTFFigure", "RTFDocument"} \/ f[2] \in {"pageby_row", "cross_new_page"} THEN {"scalar"}
                  ELSE IF f[1] = "col_rel_width" THEN {"scalar", "vector"} \cap Shapes
                  ELSE IF c \in TextClasses THEN {"scalar", "vector"} \cap Shapes
                  ELSE Shapes
PosOf(s) == IF s = "scalar" THEN {"only"} ELSE Positions
UsesFieldName(c, f) == f[2] = "border" \/ (f[2] = "positive" /\ (c = "RTFPage" \/ f[1] \in {"col_rel_width", "border_width", "cell_height"}))
Expected(c, f) == IF f[2] = "missing_file" THEN "FileNotFoundError" ELSE "ValueError"

Init == /\ \E c \in Classes : \E f \in FieldsOf(c) : \E s \in ShapesOf(c, f) : \E p \in PosOf(s) :
             row = [cls |-> c, field |-> f[1], cat |-> f[2], shape |-> s, pos |-> p]
        /\ phase = "construct" /\ outcome = "none"
F == <<row.field, row.cat>>
RejectVE == phase = "construct" /\ Expected(row.cls, F) = "ValueError" /\ (FieldNameLookup \/ ~UsesFieldName(row.cls, F))
            /\ outcome' = "ValueError" /\ phase' = "done" /\ UNCHANGED row
RejectFNF == phase = "construct" /\ Expected(row.cls, F) = "FileNotFoundError"
             /\ outcome' = "FileNotFoundError" /\ phase' = "done" /\ UNCHANGED row
Crash == phase = "construct" /\ ~FieldNameLookup /\ UsesFieldName(row.cls, F)
         /\ outcome' = "AttributeError" /\ phase' = "done" /\ UNCHANGED row
Next == RejectVE \/ RejectFNF \/ Crash
Spec == Init /\ [][Next]_vars
\* C19 on the model: invalid input is rejected with the documented exception, never accepted
Rejected == phase = "done" => outcome = Expected(row.cls, F)
Emit == phase = "done" => PrintT(ToJson([row |-> row, outcome |-> outcome]))
=============================================================================
