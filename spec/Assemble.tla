------------------------------ MODULE Assemble ------------------------------
(***************************************************************************)
(* C17: assemble_rtf over files as sequences of classified lines.           *)
(* A file is [kind, color, hf, pages, land, tail]; Lines(f) is the line      *)
(* layout (tail = "para": the last page's content ends with a source        *)
(* paragraph group instead of a table row or picture)                       *)
(* rtflite writes for it (table documents are newline-joined; in figure     *)
(* documents the colour table opens on the line that closes the font table  *)
(* unless FigureColorOwnLine).  Steps of assemble_rtf:                      *)
(*   CheckExists  ->  per file: FindStart, DropClose, AppendPart,           *)
(*   AppendPage (between files)  ->  Write                                  *)
(***************************************************************************)
EXTENDS Naturals, Integers, Sequences, FiniteSets, TLC, Json
CONSTANTS MaxFiles, Kinds, PageSet, ColorSet, HFSet, MissingSet, LandSet, TailSet, EnvSet, PriorSet,
          FigureColorOwnLine      \* deviation flag: TRUE = colour table of figure documents starts its own line
VARIABLES files, d, phase, i, out, wrote, err, env
vars == <<files, d, phase, i, out, wrote, err, env>>
\* env = [alias, rerun]: the output path is the first input; an earlier call assembled the same paths when the first
\* input still had other content of the same length and time stamp (the inputs are read anew by every call)

\* line classes and their brace balance
Delta(c) == CASE c = "sig" -> 1 [] c = "fontopen" -> 1 [] c = "fontend" -> -1 [] c = "coloropen" -> 1
              [] c = "colorclose" -> -1 [] c = "fontend_coloropen" -> 0 [] c = "close" -> -1 [] OTHER -> 0
IsFontLine(c) == c \in {"fontopen", "font"}        \* lines containing "fcharset"
Content(f, p) == <<"content", f.id, p>>
PageLines(f, p) == (IF p > 1 THEN << <<"pagebreak", f.id, p>>, <<"paper", f.id, p>> >> ELSE <<>>) \o << Content(f, p) >>
RECURSIVE AllPages(_, _)
AllPages(f, p) == IF p > f.pages THEN <<>> ELSE PageLines(f, p) \o AllPages(f, p + 1)
Cls(x) == x[1]        \* every line is a tuple whose first element is its class
Lines(f) ==
     << <<"sig">>, <<"fontopen">>, <<"font">>, <<"font">> >>
  \o (IF f.color
      THEN (IF f.kind = "figure" /\ ~FigureColorOwnLine
            THEN << <<"fontend_coloropen">>, <<"colorentry">>, <<"colorclose">> >>
            ELSE << <<"fontend">>, <<"coloropen">>, <<"colorentry">>, <<"colorclose">> >>)
      ELSE << <<"fontend">> >>)
  \o << <<"blank">> >>
  \o (IF f.hf THEN << <<"hdr">>, <<"ftr">> >> ELSE <<>>)
  \o << <<"paper", f.id, 1>>, <<"marg">> >>
  \o AllPages(f, 1)
  \o << <<"blank">>, <<"close">> >>

File0(n) == [id |-> n, kind |-> "table", color |-> FALSE, hf |-> FALSE, pages |-> 1, missing |-> FALSE, land |-> FALSE, tail |-> "none"]
Init == files = <<>> /\ d = 0 /\ phase = "pick" /\ i = 1 /\ out = <<>> /\ wrote = FALSE /\ err = "none" /\ env = [alias |-> FALSE, rerun |-> FALSE, stale |-> FALSE, twin |-> FALSE, prior |-> "none", samepath |-> FALSE]
\* build the argument list one file (5 picks) at a time
Pick == /\ phase = "pick"
        /\ \/ (/\ Len(files) < MaxFiles /\ d = 0
               /\ \E k \in Kinds, c \in ColorSet, hfv \in HFSet, p \in PageSet, ms \in MissingSet, ld \in LandSet, tl \in TailSet :
                    files' = Append(files, [File0(Len(files) + 1) EXCEPT !.kind = k, !.color = c, !.hf = hfv, !.pages = p, !.missing = ms, !.land = ld, !.tail = tl])
               /\ UNCHANGED <<d, phase>>
               /\ UNCHANGED env)
           \/ (/\ d = 0 /\ phase' = "check" /\ UNCHANGED <<files, d>>
               \* stale: the output path already holds a longer file; twin: the LAST input is a byte copy of the first
               \* prior: what the process did just before - "failed" = a call on the same inputs that read them and then could not
               \* create its output; "other" = a successful call on another argument list.  A call starts from nothing either way.
               /\ \E a \in EnvSet, b \in EnvSet, st \in EnvSet, tw \in EnvSet :
                   \E pr \in (IF a \/ b \/ st \/ tw \/ Len(files) = 0 THEN {"none"} ELSE PriorSet) :
                   \* samepath: the LAST argument is the very path of the first one (a divider page listed twice)
                   \E sp \in (IF a \/ b \/ st \/ tw \/ pr # "none" \/ Len(files) < 2 THEN {FALSE} ELSE EnvSet) :
                    env' = [alias |-> a /\ Len(files) >= 1, rerun |-> b /\ Len(files) >= 1, stale |-> st /\ ~a /\ Len(files) >= 1, twin |-> tw /\ Len(files) >= 2,
                            prior |-> pr, samepath |-> sp])
        /\ UNCHANGED <<i, out, wrote, err>>
CheckExists == /\ phase = "check"
               /\ IF Len(files) = 0 THEN phase' = "done" /\ err' = err
                  ELSE IF \E j \in 1..Len(files) : files[j].missing THEN phase' = "done" /\ err' = "FileNotFoundError"
                  ELSE phase' = "parts" /\ err' = err
               /\ UNCHANGED <<files, d, i, out, wrote, env>>
\* find_start_index: last line containing "fcharset", plus two
LastFont(ls) == LET S == {j \in 1..Len(ls) : IsFontLine(Cls(ls[j]))} IN IF S = {} THEN 0 ELSE CHOOSE j \in S : \A x \in S : x <= j
StartIdx(ls, n) == IF n = 1 THEN 1 ELSE (IF LastFont(ls) = 0 THEN 1 ELSE LastFont(ls) + 2)
EndIdx(ls, n) == IF n < Len(files) /\ Cls(ls[Len(ls)]) = "close" THEN Len(ls) - 1 ELSE Len(ls)
\* the file actually read at position j (a twin of the first input at the last position when env.twin)
Eff(j) == IF (env.twin \/ env.samepath) /\ j = Len(files) THEN files[1] ELSE files[j]
AppendPart == /\ phase = "parts" /\ i <= Len(files)
              /\ LET ls == Lines(Eff(i)) IN
                   out' = out \o SubSeq(ls, StartIdx(ls, i), EndIdx(ls, i))
                              \o (IF i < Len(files) THEN << <<"newpage", i>> >> ELSE <<>>)
              /\ i' = i + 1 /\ UNCHANGED <<files, d, phase, wrote, err, env>>
Write == /\ phase = "parts" /\ i > Len(files) /\ wrote' = TRUE /\ phase' = "done"
         /\ UNCHANGED <<files, d, i, out, err, env>>
Next == Pick \/ CheckExists \/ AppendPart \/ Write
Spec == Init /\ [][Next]_vars

\* ---- properties ----
RECURSIVE Depth(_, _)
Depth(ls, n) == IF n = 0 THEN 0 ELSE Depth(ls, n - 1) + Delta(Cls(ls[n]))
Balanced == (phase = "done" /\ wrote) =>
              /\ \A n \in 1..(Len(out) - 1) : Depth(out, n) >= 1
              /\ Depth(out, Len(out)) = 0
ContentOf(ls) == SelectSeq(ls, LAMBDA x : Cls(x) = "content")
RECURSIVE Expected(_)
Expected(n) == IF n = 0 THEN <<>> ELSE Expected(n - 1) \o ContentOf(Lines(Eff(n)))
PagesInOrder == (phase = "done" /\ wrote) => ContentOf(out) = Expected(Len(files))
\* every later input starts after a page break and restates its own paper line before its first content
NewPageAndGeometry == (phase = "done" /\ wrote) =>
   \A n \in 2..Len(files) :
      \E a, b, c \in 1..Len(out) : /\ a < b /\ b < c
                                   /\ out[a] = <<"newpage", n - 1>> /\ out[b] = <<"paper", Eff(n).id, 1>> /\ out[c] = Content(Eff(n), 1)
                                   /\ \A x \in (a + 1)..(c - 1) : Cls(out[x]) # "content"
SingleUnchanged == (phase = "done" /\ wrote /\ Len(files) = 1) => out = Lines(Eff(1))
EmptyWritesNothing == (phase = "done" /\ Len(files) = 0) => ~wrote
MissingRaises == (phase = "done" /\ \E j \in 1..Len(files) : files[j].missing) => (err = "FileNotFoundError" /\ ~wrote)
Emit == phase = "done" => PrintT(ToJson([files |-> files, env |-> env, wrote |-> wrote, err |-> err,
                                          out |-> [j \in 1..Len(out) |-> Cls(out[j])]]))
=============================================================================
