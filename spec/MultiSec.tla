------------------------------ MODULE MultiSec ------------------------------
(***************************************************************************)
(* Multi-section documents (C02, C07, C08 multi-section clauses): a list of  *)
(* sections, each with its own DataFrame, column count and optional header,  *)
(* concatenated by _encode_multi_section: Start, then per section            *)
(* Section(i) = [header row] + data rows, then footnote/source, Close.       *)
(* The generator picks the section list one section per step; the model      *)
(* output is the sequence of data rows <<section, row>> in document order.    *)
(***************************************************************************)
EXTENDS Naturals, Integers, Sequences, FiniteSets, TLC, Json
CONSTANTS MaxSec, RowSet, ColSet, HdrSet, FootSet, BoolSet, NrowSet, BodySet, PbSet
\* PbSet: "none" | "rot": all sections use the SAME column names, non-uniform relative widths, and section i hides
\*        column (i mod m) as its page_by column (shown as spanning rows), so equal frames hide different columns
\* BodySet: "own" (one RTFBody per section) | "shared" (the same RTFBody() object for every section) |
\*          "sharedw" (the same RTFBody(col_rel_width=[1]) object for every section)
VARIABLES secs, opts, phase, i, out
vars == <<secs, opts, phase, i, out>>
Init == secs = <<>> /\ opts = [foot |-> "none", src |-> "none", title |-> FALSE, nrow |-> 40, body |-> "own", pb |-> "none"] /\ phase = "pick" /\ i = 1 /\ out = <<>>
PickSection == /\ phase = "pick" /\ Len(secs) < MaxSec
               /\ \E n \in RowSet, m \in ColSet, h \in HdrSet : secs' = Append(secs, [n |-> n, m |-> m, hdr |-> h])
               /\ UNCHANGED <<opts, phase, i, out>>
PickOpts == /\ phase = "pick" /\ Len(secs) >= 2
            /\ \E f \in FootSet, s \in FootSet, t \in BoolSet, nr \in NrowSet, b \in BodySet, pbm \in PbSet :
                  opts' = [foot |-> f, src |-> s, title |-> t, nrow |-> nr, body |-> IF pbm = "rot" THEN "own" ELSE b, pb |-> pbm]
            /\ phase' = "emit" /\ UNCHANGED <<secs, i, out>>
Section == /\ phase = "emit" /\ i <= Len(secs)
           /\ out' = out \o [r \in 1..secs[i].n |-> <<i, r>>]
           /\ i' = i + 1 /\ UNCHANGED <<secs, opts, phase>>
Close == phase = "emit" /\ i > Len(secs) /\ phase' = "done" /\ UNCHANGED <<secs, opts, i, out>>
Next == PickSection \/ PickOpts \/ Section \/ Close
Spec == Init /\ [][Next]_vars
\* sections appear in list order, each row exactly once
InListOrder == phase = "done" => \A a, b \in 1..Len(out) : a < b => (out[a][1] < out[b][1] \/ (out[a][1] = out[b][1] /\ out[a][2] < out[b][2]))
Emit == phase = "done" => PrintT(ToJson([secs |-> secs, opts |-> opts, out |-> out]))
=============================================================================
