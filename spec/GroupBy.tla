------------------------------- MODULE GroupBy -------------------------------
(***************************************************************************)
(* C13: group_by value suppression with page-context restoration.           *)
(*   pick      scenario: levels, rows, keys (alphabet incl. NULL), page size *)
(*   Validate  validate_data_sorting: ValueError iff some level's equal     *)
(*             hierarchical keys are not contiguous                         *)
(*   Suppress  enhance_group_by, one step per group_by column (outer first) *)
(*   Restore   restore_page_context, one step per page start                *)
(* Deviation flags: NullAware (comparisons treat null as a value) and       *)
(* HierOnOriginal (outer-level comparisons read the original, not the       *)
(* already suppressed, column).  FALSE = the behaviour of the pinned tree.  *)
(***************************************************************************)
EXTENDS Naturals, Integers, Sequences, FiniteSets, TLC, Json, GroupCfg
CONSTANTS NSet, LevelSet, Alphabet, CapSet, NullAware, HierOnOriginal,
          SpellSet,     \* how the abstract key symbols are written in the frame: "plain" (a, b, c) or "collide" (level-dependent
                        \* digit strings whose plain concatenation is the same for different key tuples: ("1","12") / ("11","2"))
          OrderSet      \* order of the group_by columns in the frame: "asc" (as listed in group_by) or "rev" (reversed)
VARIABLES cfg, d, phase, lev, pg, shown, outcome
vars == <<cfg, d, phase, lev, pg, shown, outcome>>

Cfg0 == [nlev |-> 1, n |-> 1, keys |-> <<>>, cap |-> 100, spell |-> "plain", gorder |-> "asc"]
Init == cfg = Cfg0 /\ d = 1 /\ phase = "pick" /\ lev = 1 /\ pg = 2 /\ shown = <<>> /\ outcome = "none"
Pick == /\ phase = "pick" /\ d <= 6
        /\ CASE d = 1 -> \E v \in LevelSet : cfg' = [cfg EXCEPT !.nlev = v] /\ d' = 2
             [] d = 2 -> \E v \in NSet : cfg' = [cfg EXCEPT !.n = v] /\ d' = 3
             [] d = 3 -> IF Len(cfg.keys) >= cfg.n THEN cfg' = cfg /\ d' = 4
                         ELSE \E k \in [1..cfg.nlev -> Alphabet] : cfg' = [cfg EXCEPT !.keys = Append(@, k)] /\ d' = 3
             [] d = 4 -> \E v \in CapSet : cfg' = [cfg EXCEPT !.cap = v] /\ d' = 5
             [] d = 5 -> \E v \in SpellSet : cfg' = [cfg EXCEPT !.spell = v] /\ d' = 6
             [] d = 6 -> \E v \in (IF cfg.nlev >= 2 THEN OrderSet ELSE {"asc"}) : cfg' = [cfg EXCEPT !.gorder = v] /\ d' = 7
        /\ UNCHANGED <<phase, lev, pg, shown, outcome>>
Validate == /\ phase = "pick" /\ d = 7
            /\ IF Contiguous(cfg)
               THEN phase' = "suppress" /\ outcome' = "ok"
                    /\ shown' = [r \in 1..cfg.n |-> [l \in 1..cfg.nlev |-> TRUE]]
               ELSE phase' = "done" /\ outcome' = "ValueError" /\ shown' = shown
            /\ UNCHANGED <<cfg, d, lev, pg>>
\* polars `!=`: null if either side is null (then treated as not-different)
Ne(a, b) == IF NullAware THEN a # b ELSE (a # "NULL" /\ b # "NULL" /\ a # b)
\* value of column h at row r as the comparison sees it
Seen(h, r) == IF HierOnOriginal \/ shown[r][h] THEN cfg.keys[r][h] ELSE "NULL"
ShowAt(r, l) == \/ r = 1
                \/ \E h \in 1..(l - 1) : Ne(Seen(h, r), Seen(h, r - 1))
                \/ Ne(cfg.keys[r][l], cfg.keys[r - 1][l])
Suppress == /\ phase = "suppress" /\ lev <= cfg.nlev
            /\ shown' = [r \in 1..cfg.n |-> [l \in 1..cfg.nlev |-> IF l = lev THEN ShowAt(r, lev) ELSE shown[r][l]]]
            /\ lev' = lev + 1 /\ UNCHANGED <<cfg, d, phase, pg, outcome>>
EndSuppress == phase = "suppress" /\ lev > cfg.nlev /\ phase' = "restore" /\ UNCHANGED <<cfg, d, lev, pg, shown, outcome>>
NPages == ((cfg.n - 1) \div cfg.cap) + 1
Restore == /\ phase = "restore" /\ pg <= NPages
           /\ LET s == (pg - 1) * cfg.cap + 1 IN
                shown' = [shown EXCEPT ![s] = [l \in 1..cfg.nlev |-> TRUE]]
           /\ pg' = pg + 1 /\ UNCHANGED <<cfg, d, phase, lev, outcome>>
Finish == phase = "restore" /\ pg > NPages /\ phase' = "done" /\ UNCHANGED <<cfg, d, lev, pg, shown, outcome>>
Next == Pick \/ Validate \/ Suppress \/ EndSuppress \/ Restore \/ Finish
Spec == Init /\ [][Next]_vars

C13_Blank == (phase = "done" /\ outcome = "ok") =>
   \A r \in 1..cfg.n, l \in 1..cfg.nlev : cfg.keys[r][l] # "NULL" => (shown[r][l] <=> ~Blank(cfg, r, l))
C13_Reject == phase = "done" => (outcome = "ValueError" <=> ~Contiguous(cfg))
\* restoring never hides anything that suppression showed
RestoreOnlyShows == [][phase = "restore" /\ phase' = "restore" =>
                       \A r \in 1..cfg.n, l \in 1..cfg.nlev : shown[r][l] => shown'[r][l]]_vars
Emit == phase = "done" => PrintT(ToJson([cfg |-> cfg, outcome |-> outcome,
          shown |-> IF outcome = "ok" THEN shown ELSE <<>>]))
=============================================================================
