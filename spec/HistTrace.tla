------------------------------ MODULE HistTrace ------------------------------
(* Property-level trace specification for C14 (and the per-thread results of C15): one
   behaviour per executed history / schedule; each step consumes the result of one operation:
   [kind, doc, outcome, digest, dfsame].  c.fresh[doc] is the digest of the document's output
   in a fresh interpreter; c.failing is the set of documents whose encode must raise ValueError. *)
EXTENDS Naturals, Integers, Sequences, FiniteSets, TLC, Json, IOUtils
CONSTANT Judge
All == JsonDeserialize(IOEnv.TRACE_FILE)
VARIABLES tid, l, bad
vars == <<tid, l, bad>>
E(t) == All[t].ev
IsEncode(e) == e.kind = "encode"
C14_Pure(x, ev, pos) ==
  (pos <= Len(ev) /\ IsEncode(ev[pos]) /\ ev[pos].outcome = "ok") => ev[pos].digest = x.fresh[ev[pos].doc]
C14_Repeatable(x, ev, pos) ==   \* the same document gives the same string every time in one history
  (pos <= Len(ev) /\ IsEncode(ev[pos]) /\ ev[pos].outcome = "ok") =>
     \A j \in 1..(pos - 1) : (IsEncode(ev[j]) /\ ev[j].doc = ev[pos].doc /\ ev[j].outcome = "ok") => ev[j].digest = ev[pos].digest
C14_DfUnchanged(x, ev, pos) == (pos <= Len(ev) /\ IsEncode(ev[pos])) => ev[pos].dfsame
C14_Outcome(x, ev, pos) ==
  (pos <= Len(ev) /\ IsEncode(ev[pos])) =>
     ev[pos].outcome = (IF ev[pos].doc \in {x.failing[j] : j \in 1..Len(x.failing)} THEN "ValueError" ELSE "ok")
C14_AllRan(x, ev, pos) == (pos = Len(ev) + 1) => Len(ev) = x.nops
Holds(name, x, ev, pos) ==
  CASE name = "C14_Pure" -> C14_Pure(x, ev, pos)
    [] name = "C14_Repeatable" -> C14_Repeatable(x, ev, pos)
    [] name = "C14_DfUnchanged" -> C14_DfUnchanged(x, ev, pos)
    [] name = "C14_Outcome" -> C14_Outcome(x, ev, pos)
    [] name = "C14_AllRan" -> C14_AllRan(x, ev, pos)
Init == tid \in 1..Len(All) /\ l = 1 /\ bad = {}
Failing(t, pos) == {y \in Judge : ~Holds(y, All[t].c, E(t), pos)}
ConsumeOp == /\ l <= Len(E(tid)) + 1 /\ bad' = bad \cup {[cl |-> y, at |-> l] : y \in Failing(tid, l)}
             /\ l' = l + 1 /\ UNCHANGED tid
Finish == /\ l = Len(E(tid)) + 2 /\ PrintT(ToJson([id |-> All[tid].id, bad |-> bad]))
          /\ l' = l + 1 /\ UNCHANGED <<tid, bad>>
Next == ConsumeOp \/ Finish
Spec == Init /\ [][Next]_vars
=============================================================================
