------------------------------ MODULE TextTrace ------------------------------
(* Trace specification for C11: the events an RTF reader extracts from the rendered run must be
   exactly what the documented scanner (TextConv!Step) produces for the input.  Each step
   performs one scanner action on the abstract input and consumes the events it predicts from
   the observed event list; the first mismatch is recorded (the verdict is total). *)
EXTENDS TextScan, Json, IOUtils
All == JsonDeserialize(IOEnv.TRACE_FILE)
VARIABLES tid, i, o, badAt, badWhy
tvars == <<tid, i, o, badAt, badWhy>>
S(t) == All[t].inp
O(t) == All[t].obs
TInit == tid \in 1..Len(All) /\ i = 1 /\ o = 1 /\ badAt = 0 /\ badWhy = ""
Matches(t, evs) == /\ o + Len(evs) - 1 <= Len(O(t))
                   /\ \A j \in 1..Len(evs) : O(t)[o + j - 1] = evs[j]
ScanStep(kind) ==
  /\ badAt = 0 /\ i <= Len(S(tid)) /\ ActionName(S(tid), i) = kind
  /\ LET r == Step(S(tid), i, All[tid].conv, All[tid].k) IN
       IF Matches(tid, r[1]) THEN i' = r[2] /\ o' = o + Len(r[1]) /\ UNCHANGED <<badAt, badWhy>>
       ELSE badAt' = i /\ badWhy' = kind /\ UNCHANGED <<i, o>>
  /\ UNCHANGED tid
Literal == ScanStep("Literal")
Caret == ScanStep("Caret")
Under == ScanStep("Under")
Compare == ScanStep("Compare")
Newline == ScanStep("Newline")
CommandStep == ScanStep("Command")
\* end of input: nothing may be left over in the observed run
EndOfText == /\ badAt = 0 /\ i = Len(S(tid)) + 1
             /\ IF o = Len(O(tid)) + 1 THEN UNCHANGED <<badAt, badWhy>> ELSE badAt' = i /\ badWhy' = "Extra"
             /\ i' = i + 1 /\ UNCHANGED <<tid, o>>
Finish == /\ (badAt # 0 \/ i = Len(S(tid)) + 2) /\ i <= Len(S(tid)) + 2
          /\ PrintT(ToJson([id |-> All[tid].id, badAt |-> badAt, why |-> badWhy, consumed |-> o - 1]))
          /\ i' = Len(S(tid)) + 3 /\ UNCHANGED <<tid, o, badAt, badWhy>>
TNext == Literal \/ Caret \/ Under \/ Compare \/ Newline \/ CommandStep \/ EndOfText \/ Finish
TSpec == TInit /\ [][TNext]_tvars
=============================================================================
