---- MODULE Assemble_TTrace_1791101763 ----
EXTENDS Sequences, TLCExt, Toolbox, Naturals, TLC, Assemble

_expression ==
    LET Assemble_TEExpression == INSTANCE Assemble_TEExpression
    IN Assemble_TEExpression!expression
----

_trace ==
    LET Assemble_TETrace == INSTANCE Assemble_TETrace
    IN Assemble_TETrace!trace
----

_inv ==
    ~(
        TLCGet("level") = Len(_TETrace)
        /\
        phase = ("done")
        /\
        d = (0)
        /\
        err = ("none")
        /\
        wrote = (TRUE)
        /\
        i = (2)
        /\
        files = (<<[id |-> 1, pages |-> 1, color |-> FALSE, kind |-> "table", hf |-> FALSE, missing |-> FALSE, land |-> FALSE]>>)
        /\
        out = (<<"sig", "fontopen", "font", "font", "fontend", "blank", <<"paper", 1, 1>>, "marg", <<"content", 1, 1>>, "blank", "close">>)
    )
----

_init ==
    /\ phase = _TETrace[1].phase
    /\ wrote = _TETrace[1].wrote
    /\ d = _TETrace[1].d
    /\ i = _TETrace[1].i
    /\ out = _TETrace[1].out
    /\ files = _TETrace[1].files
    /\ err = _TETrace[1].err
----

_next ==
    /\ \E i,j \in DOMAIN _TETrace:
        /\ \/ /\ j = i + 1
              /\ i = TLCGet("level")
        /\ phase  = _TETrace[i].phase
        /\ phase' = _TETrace[j].phase
        /\ wrote  = _TETrace[i].wrote
        /\ wrote' = _TETrace[j].wrote
        /\ d  = _TETrace[i].d
        /\ d' = _TETrace[j].d
        /\ i  = _TETrace[i].i
        /\ i' = _TETrace[j].i
        /\ out  = _TETrace[i].out
        /\ out' = _TETrace[j].out
        /\ files  = _TETrace[i].files
        /\ files' = _TETrace[j].files
        /\ err  = _TETrace[i].err
        /\ err' = _TETrace[j].err

\* Uncomment the ASSUME below to write the states of the error trace
\* to the given file in Json format. Note that you can pass any tuple
\* to `JsonSerialize`. For example, a sub-sequence of _TETrace.
    \* ASSUME
    \*     LET J == INSTANCE Json
    \*         IN J!JsonSerialize("Assemble_TTrace_1791101763.json", _TETrace)

=============================================================================

 Note that you can extract this module `Assemble_TEExpression`
  to a dedicated file to reuse `expression` (the module in the 
  dedicated `Assemble_TEExpression.tla` file takes precedence 
  over the module `Assemble_TEExpression` below).

---- MODULE Assemble_TEExpression ----
EXTENDS Sequences, TLCExt, Toolbox, Naturals, TLC, Assemble

expression == 
    [
        \* To hide variables of the `Assemble` spec from the error trace,
        \* remove the variables below.  The trace will be written in the order
        \* of the fields of this record.
        phase |-> phase
        ,wrote |-> wrote
        ,d |-> d
        ,i |-> i
        ,out |-> out
        ,files |-> files
        ,err |-> err
        
        \* Put additional constant-, state-, and action-level expressions here:
        \* ,_stateNumber |-> _TEPosition
        \* ,_phaseUnchanged |-> phase = phase'
        
        \* Format the `phase` variable as Json value.
        \* ,_phaseJson |->
        \*     LET J == INSTANCE Json
        \*     IN J!ToJson(phase)
        
        \* Lastly, you may build expressions over arbitrary sets of states by
        \* leveraging the _TETrace operator.  For example, this is how to
        \* count the number of times a spec variable changed up to the current
        \* state in the trace.
        \* ,_phaseModCount |->
        \*     LET F[s \in DOMAIN _TETrace] ==
        \*         IF s = 1 THEN 0
        \*         ELSE IF _TETrace[s].phase # _TETrace[s-1].phase
        \*             THEN 1 + F[s-1] ELSE F[s-1]
        \*     IN F[_TEPosition - 1]
    ]

=============================================================================



Parsing and semantic processing can take forever if the trace below is long.
 In this case, it is advised to uncomment the module below to deserialize the
 trace from a generated binary file.

\*
\*---- MODULE Assemble_TETrace ----
\*EXTENDS IOUtils, TLC, Assemble
\*
\*trace == IODeserialize("Assemble_TTrace_1791101763.bin", TRUE)
\*
\*=============================================================================
\*

---- MODULE Assemble_TETrace ----
EXTENDS TLC, Assemble

trace == 
    <<
    ([phase |-> "pick",d |-> 0,err |-> "none",wrote |-> FALSE,i |-> 1,files |-> <<>>,out |-> <<>>]),
    ([phase |-> "pick",d |-> 0,err |-> "none",wrote |-> FALSE,i |-> 1,files |-> <<[id |-> 1, pages |-> 1, color |-> FALSE, kind |-> "table", hf |-> FALSE, missing |-> FALSE, land |-> FALSE]>>,out |-> <<>>]),
    ([phase |-> "check",d |-> 0,err |-> "none",wrote |-> FALSE,i |-> 1,files |-> <<[id |-> 1, pages |-> 1, color |-> FALSE, kind |-> "table", hf |-> FALSE, missing |-> FALSE, land |-> FALSE]>>,out |-> <<>>]),
    ([phase |-> "parts",d |-> 0,err |-> "none",wrote |-> FALSE,i |-> 1,files |-> <<[id |-> 1, pages |-> 1, color |-> FALSE, kind |-> "table", hf |-> FALSE, missing |-> FALSE, land |-> FALSE]>>,out |-> <<>>]),
    ([phase |-> "parts",d |-> 0,err |-> "none",wrote |-> FALSE,i |-> 2,files |-> <<[id |-> 1, pages |-> 1, color |-> FALSE, kind |-> "table", hf |-> FALSE, missing |-> FALSE, land |-> FALSE]>>,out |-> <<"sig", "fontopen", "font", "font", "fontend", "blank", <<"paper", 1, 1>>, "marg", <<"content", 1, 1>>, "blank", "close">>]),
    ([phase |-> "done",d |-> 0,err |-> "none",wrote |-> TRUE,i |-> 2,files |-> <<[id |-> 1, pages |-> 1, color |-> FALSE, kind |-> "table", hf |-> FALSE, missing |-> FALSE, land |-> FALSE]>>,out |-> <<"sig", "fontopen", "font", "font", "fontend", "blank", <<"paper", 1, 1>>, "marg", <<"content", 1, 1>>, "blank", "close">>])
    >>
----


=============================================================================

---- CONFIG Assemble_TTrace_1791101763 ----
CONSTANTS
    MaxFiles = 2
    Kinds = { "table" , "figure" }
    PageSet = { 1 , 2 }
    ColorSet = { TRUE , FALSE }
    HFSet = { FALSE }
    MissingSet = { FALSE }
    LandSet = { FALSE }
    FigureColorOwnLine = TRUE

INVARIANT
    _inv

CHECK_DEADLOCK
    \* CHECK_DEADLOCK off because of PROPERTY or INVARIANT above.
    FALSE

INIT
    _init

NEXT
    _next

CONSTANT
    _TETrace <- _trace

ALIAS
    _expression
=============================================================================
\* Generated on Sun Oct 04 08:16:04 UTC 2026