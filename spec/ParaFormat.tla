----------------------------- MODULE ParaFormat -----------------------------
(***************************************************************************)
(* Formatting of the paragraph-rendered text components (title, subline,   *)
(* page header, page footer; footnote and source with as_table = FALSE).   *)
(* Not the subject of a listed property - specification growth, bound to   *)
(* the code as conformance (MODEL-DRIFT), attached to C09.                 *)
(*                                                                         *)
(* A component holds L text lines and, per attribute, a stored pattern of  *)
(* K values (a scalar is a pattern of one value; lists and tuples are both *)
(* stored as a tuple, one entry per LINE).  TextAttributes._encode_text    *)
(* resolves  BroadcastValue(value, dimension = (L, 1)).iloc(i, 0), i.e.    *)
(* pattern entry i mod K.                                                  *)
(*                                                                         *)
(*  - method "line" (title, subline, page header, page footer): one run    *)
(*    per line (action EncodeRun), joined with \line, then ONE paragraph   *)
(*    wrapper (action ClosePar) whose paragraph-level settings are         *)
(*    resolved at the loop variable left over from the run loop - the LAST *)
(*    line (named deviation ParLevelFromLastLine; the intended reading     *)
(*    would arguably be the first line).                                   *)
(*  - footnote / source as paragraphs: the lines were joined into ONE text *)
(*    at construction (action Join), so a single run and a single          *)
(*    paragraph are produced, both resolved at line 0.                     *)
(*                                                                         *)
(* Values are indices into the harness' list of legal values of the        *)
(* attribute: pattern entry p has index (3p + salt) mod NV.                *)
(***************************************************************************)
EXTENDS Naturals, Sequences, FiniteSets, TLC, Json

CONSTANTS CompSet, LSet, KSet, AttrSet, FormSet, SaltSet, NV,
          ParLevelFromLastLine      \* TRUE = as implemented

LineComps == {"title", "subline", "pagehdr", "pageftr"}
JoinComps == {"footnote", "source"}
RunAttrs == {"text_font", "text_font_size", "text_format"}
ParAttrs == {"text_justification", "text_indent_first", "text_indent_left", "text_indent_right",
             "text_space_before", "text_space_after", "text_hyphenation", "text_space"}

VARIABLES cfg, d, phase, i, nlines, out
vars == <<cfg, d, phase, i, nlines, out>>

Cfg0 == [comp |-> "title", L |-> 1, K |-> 1, attr |-> "text_font", form |-> "scalar", salt |-> 0]
NDims == 6
Dim(k, x) ==
  CASE k = 1 -> <<"comp", CompSet>>
    [] k = 2 -> <<"L", LSet>>
    [] k = 3 -> <<"attr", AttrSet>>
    [] k = 4 -> <<"form", FormSet>>
    [] k = 5 -> <<"K", IF x.form = "scalar" THEN {1} ELSE KSet>>
    [] k = 6 -> <<"salt", SaltSet>>

PatIdx(x, p) == (3 * p + x.salt) % NV            \* value index of pattern entry p (0-based)
Resolve(x, line0) == PatIdx(x, line0 % x.K)      \* BroadcastValue((L,1)).iloc(line0, 0)

Init == cfg = Cfg0 /\ d = 1 /\ phase = "pick" /\ i = 0 /\ nlines = 0 /\ out = <<>>
Pick == /\ phase = "pick" /\ d <= NDims
        /\ \E v \in Dim(d, cfg)[2] : cfg' = [cfg EXCEPT ![Dim(d, cfg)[1]] = v]
        /\ d' = d + 1
        /\ UNCHANGED <<phase, i, nlines, out>>
\* construction: footnote / source join their lines into one text
Join == /\ phase = "pick" /\ d > NDims
        /\ nlines' = IF cfg.comp \in JoinComps THEN 1 ELSE cfg.L
        /\ phase' = "runs" /\ i' = 0
        /\ UNCHANGED <<cfg, d, out>>
EncodeRun == /\ phase = "runs" /\ i < nlines
             /\ out' = IF cfg.attr \in RunAttrs
                       THEN Append(out, [lvl |-> "run", line |-> i, idx |-> Resolve(cfg, i)])
                       ELSE out
             /\ i' = i + 1
             /\ UNCHANGED <<cfg, d, phase, nlines>>
ClosePar == /\ phase = "runs" /\ i = nlines
            /\ LET at == IF cfg.comp \in JoinComps THEN 0
                         ELSE IF ParLevelFromLastLine THEN nlines - 1 ELSE 0
               IN out' = IF cfg.attr \in ParAttrs
                         THEN Append(out, [lvl |-> "par", line |-> at, idx |-> Resolve(cfg, at)])
                         ELSE out
            /\ phase' = "done"
            /\ UNCHANGED <<cfg, d, i, nlines>>
Next == Pick \/ Join \/ EncodeRun \/ ClosePar
Spec == Init /\ [][Next]_vars

TypeOK == phase \in {"pick", "runs", "done"} /\ i \in 0..3 /\ nlines \in 0..3

\* laws of the model (checked by TLC)
\* every line of a "line" component has exactly one run, in order, with the pattern entry of its own line
RunFollowsLine ==
  (phase = "done" /\ cfg.attr \in RunAttrs /\ cfg.comp \in LineComps) =>
     /\ Len(out) = cfg.L
     /\ \A k \in 1..Len(out) : out[k].line = k - 1 /\ out[k].idx = PatIdx(cfg, (k - 1) % cfg.K)
\* a constant pattern (scalar, or K = 1) gives the same value everywhere, whatever the component
ConstantPattern ==
  (phase = "done" /\ cfg.K = 1) => \A k \in 1..Len(out) : out[k].idx = PatIdx(cfg, 0)
\* exactly one paragraph-level resolution per component
OnePar ==
  (phase = "done" /\ cfg.attr \in ParAttrs) => Len(out) = 1 /\ out[1].lvl = "par"
\* the intended reading (paragraph settings of the first line) - refuted when ParLevelFromLastLine
ParFromFirst ==
  (phase = "done" /\ cfg.attr \in ParAttrs) => out[1].idx = PatIdx(cfg, 0)

Emit == phase = "done" => PrintT(ToJson([cfg |-> cfg, out |-> out]))
=============================================================================
