------------------------------ MODULE GroupCfg ------------------------------
(* Constant-level definitions for C13 (group_by): hierarchical keys with null as a value of
   its own, the blanking rule and contiguity; shared by GroupBy (model) and GroupTrace. *)
EXTENDS Naturals, Integers, Sequences, FiniteSets, TLC

\* x.keys[r][l] in {"a", "b", "c", "NULL"}; x.cap = rows per page
Key(x, r, l) == [v \in 1..l |-> x.keys[r][v]]          \* hierarchical key down to level l
PageOf(x, r) == ((r - 1) \div x.cap) + 1
FirstOnPage(x, r) == r = 1 \/ PageOf(x, r) # PageOf(x, r - 1)
Blank(x, r, l) == r > 1 /\ Key(x, r, l) = Key(x, r - 1, l) /\ ~FirstOnPage(x, r)
Disp(v) == IF v = "NULL" THEN "" ELSE v
\* equal hierarchical keys are contiguous at every level
ContiguousAt(x, l) == \A i, j \in 1..x.n : (i < j /\ Key(x, i, l) = Key(x, j, l)) =>
                         \A m \in i..j : Key(x, m, l) = Key(x, i, l)
Contiguous(x) == \A l \in 1..x.nlev : ContiguousAt(x, l)
=============================================================================
