----------------------------- MODULE Converter -----------------------------
(***************************************************************************)
(* LibreOfficeConverter (src/rtflite/convert.py) as a state machine: how   *)
(* the executable is resolved, how the version is verified, and what one   *)
(* call of convert() does to the output directory.  The external program   *)
(* is an environment process with four behaviours per conversion:          *)
(*   ok           writes <stem>.<format> into --outdir and exits 0         *)
(*   fail_before  exits 1 without writing anything                         *)
(*   fail_after   writes the output, then exits 1                          *)
(*   silent       exits 0 without writing anything                         *)
(* Every invocation of the program is an event of the behaviour (variable   *)
(* log); the conformance harness records the same events from a fake        *)
(* executable and ConvTrace.tla replays them through these actions.         *)
(*                                                                         *)
(* Steps of the code, one action each:                                      *)
(*   Resolve      _resolve_executable_path / _find_executable               *)
(*   RunVersion   subprocess.run([exe, "--version"])                        *)
(*   CheckVersion parse + compare with MIN_VERSION                          *)
(*   MkOutDir     output_dir.mkdir(parents=True) when missing               *)
(*   CheckInputs  every input must exist BEFORE any conversion starts       *)
(*   CheckExisting  FileExistsError unless overwrite                        *)
(*   RunConvert   subprocess.run([exe, ..., "--convert-to", fmt, ...])      *)
(*   CheckOutput  RuntimeError unless the output file exists                *)
(***************************************************************************)
EXTENDS Naturals, Integers, Sequences, FiniteSets, TLC, Json

CONSTANTS Args, OnPaths, Versions, Ops, InMissSet, OutDirs, PreSet, OverwriteSet, Behaviours, BehAtSet
\* Args      "none" | "abs_ok" | "abs_missing" | "rel_ok" | "rel_missing" | "bare_ok" | "bare_missing" | "home_ok"
\* OnPaths   which of the standard names is on PATH: "none" | "soffice" | "libreoffice" | "both"
\* Versions  "7.1" | "24.8" | "7.0" | "6.4" | "garbage" | "exit1"
\* Ops       "single" (one Path) | "single_str" (one str) | "batch2" (list of two)
\* InMissSet index of the missing input (0 = all exist)
\* PreSet    index of the input whose output already exists in the output directory (0 = none)

VARIABLES cv, d, pc, exe, log, k, outfiles, ctor, result
vars == <<cv, d, pc, exe, log, k, outfiles, ctor, result>>
\* exe: which executable was resolved ("" = none); log: invocations of the program, in order
\* k: index of the input being converted; outfiles[i] \in {"absent", "old", "new"}
\* ctor: outcome of LibreOfficeConverter(...); result: outcome of convert(...)

Cv0 == [arg |-> "none", onpath |-> "none", ver |-> "7.1", op |-> "single", inmiss |-> 0, outdir |-> "present",
        pre |-> 0, overwrite |-> FALSE, beh |-> "ok", behat |-> 1]
NInputs == IF cv.op = "batch2" THEN 2 ELSE 1

Init == /\ cv = Cv0 /\ d = 1 /\ pc = "pick" /\ exe = "" /\ log = <<>> /\ k = 1
        /\ outfiles = <<"absent", "absent">> /\ ctor = "" /\ result = ""
Pick == /\ pc = "pick" /\ d <= 10
        /\ CASE d = 1 -> \E v \in Args : cv' = [cv EXCEPT !.arg = v]
             [] d = 2 -> \E v \in (IF cv.arg = "none" THEN OnPaths ELSE {"none"}) : cv' = [cv EXCEPT !.onpath = v]
             [] d = 3 -> \E v \in Versions : cv' = [cv EXCEPT !.ver = v]
             [] d = 4 -> \E v \in Ops : cv' = [cv EXCEPT !.op = v]
             [] d = 5 -> \E v \in {x \in InMissSet : x <= (IF cv.op = "batch2" THEN 2 ELSE 1)} : cv' = [cv EXCEPT !.inmiss = v]
             [] d = 6 -> \E v \in OutDirs : cv' = [cv EXCEPT !.outdir = v]
             [] d = 7 -> \E v \in {x \in PreSet : x <= (IF cv.op = "batch2" THEN 2 ELSE 1) /\ (x = 0 \/ cv.outdir = "present")} :
                           cv' = [cv EXCEPT !.pre = v]
             [] d = 8 -> \E v \in OverwriteSet : cv' = [cv EXCEPT !.overwrite = v]
             [] d = 9 -> \E v \in Behaviours : cv' = [cv EXCEPT !.beh = v]
             [] d = 10 -> \E v \in {x \in BehAtSet : x <= (IF cv.op = "batch2" THEN 2 ELSE 1) /\ (cv.beh # "ok" \/ x = 1)} :
                           cv' = [cv EXCEPT !.behat = v]
        /\ d' = d + 1 /\ UNCHANGED <<pc, exe, log, k, outfiles, ctor, result>>
Start == /\ pc = "pick" /\ d = 11 /\ pc' = "resolve"
         /\ outfiles' = [i \in 1..2 |-> IF cv.pre = i THEN "old" ELSE "absent"]
         /\ UNCHANGED <<cv, d, exe, log, k, ctor, result>>

CtorFails(e) == pc' = "done" /\ ctor' = e /\ result' = "not-run" /\ UNCHANGED <<cv, d, log, k, outfiles>>
\* ---- __init__ ----
Resolve ==
  /\ pc = "resolve"
  /\ CASE cv.arg = "none" ->
            \* shutil.which("soffice"), then "libreoffice", then the platform's default locations (none exist here)
            IF cv.onpath = "none" THEN CtorFails("FileNotFoundError") /\ exe' = ""
            ELSE /\ exe' = (IF cv.onpath \in {"soffice", "both"} THEN "soffice" ELSE "libreoffice")
                 /\ pc' = "runversion" /\ UNCHANGED <<cv, d, log, k, outfiles, ctor, result>>
       [] cv.arg \in {"abs_ok", "rel_ok", "home_ok"} ->
            \* looks like a path (absolute, or contains a separator, also after ~ expansion): must be a file
            /\ exe' = "given" /\ pc' = "runversion" /\ UNCHANGED <<cv, d, log, k, outfiles, ctor, result>>
       [] cv.arg \in {"abs_missing", "rel_missing"} -> CtorFails("FileNotFoundError") /\ exe' = ""
       [] cv.arg = "bare_ok" ->
            \* a bare name is looked up on PATH
            /\ exe' = "given" /\ pc' = "runversion" /\ UNCHANGED <<cv, d, log, k, outfiles, ctor, result>>
       [] cv.arg = "bare_missing" -> CtorFails("FileNotFoundError") /\ exe' = ""
RunVersion ==
  /\ pc = "runversion" /\ log' = Append(log, <<"version", exe>>)
  /\ IF cv.ver = "exit1" THEN CtorFails("RuntimeError") /\ UNCHANGED exe
     ELSE pc' = "checkversion" /\ UNCHANGED <<cv, d, exe, k, outfiles, ctor, result>>
\* major.minor as an integer pair for the comparison with MIN_VERSION = 7.1
VerPair(v) == CASE v = "7.1" -> <<7, 1>> [] v = "24.8" -> <<24, 8>> [] v = "7.0" -> <<7, 0>> [] v = "6.4" -> <<6, 4>> [] OTHER -> <<0, 0>>
AtLeastMin(v) == LET p == VerPair(v) IN p[1] > 7 \/ (p[1] = 7 /\ p[2] >= 1)
CheckVersion ==
  /\ pc = "checkversion"
  /\ IF cv.ver = "garbage" THEN CtorFails("ValueError") /\ UNCHANGED exe
     ELSE IF ~AtLeastMin(cv.ver) THEN CtorFails("RuntimeError") /\ UNCHANGED exe    \* (the docstring says ValueError)
     ELSE pc' = "mkoutdir" /\ ctor' = "constructed" /\ UNCHANGED <<cv, d, exe, log, k, outfiles, result>>

\* ---- convert() ----
ConvFails(e) == pc' = "done" /\ result' = e /\ UNCHANGED <<cv, d, exe, k, ctor>>
MkOutDir == /\ pc = "mkoutdir" /\ pc' = "checkinputs" /\ UNCHANGED <<cv, d, exe, log, k, outfiles, ctor, result>>
CheckInputs ==
  /\ pc = "checkinputs"
  /\ IF cv.inmiss # 0 THEN ConvFails("FileNotFoundError") /\ UNCHANGED <<log, outfiles>>
     ELSE pc' = "checkexisting" /\ UNCHANGED <<cv, d, exe, log, k, outfiles, ctor, result>>
CheckExisting ==
  /\ pc = "checkexisting"
  /\ IF outfiles[k] # "absent" /\ ~cv.overwrite THEN ConvFails("FileExistsError") /\ UNCHANGED <<log, outfiles>>
     ELSE pc' = "runconvert" /\ UNCHANGED <<cv, d, exe, log, k, outfiles, ctor, result>>
BehOf(i) == IF i = cv.behat THEN cv.beh ELSE "ok"
RunConvert ==
  /\ pc = "runconvert" /\ log' = Append(log, <<"convert", exe, k>>)
  /\ outfiles' = [outfiles EXCEPT ![k] = IF BehOf(k) \in {"ok", "fail_after"} THEN "new" ELSE @]
  /\ IF BehOf(k) \in {"fail_before", "fail_after"}
     THEN pc' = "done" /\ result' = "RuntimeError" /\ UNCHANGED <<cv, d, exe, k, ctor>>
     ELSE pc' = "checkoutput" /\ UNCHANGED <<cv, d, exe, k, ctor, result>>
CheckOutput ==
  /\ pc = "checkoutput"
  /\ IF outfiles[k] = "absent" THEN ConvFails("RuntimeError") /\ UNCHANGED <<log, outfiles>>
     \* deviation kept as implemented: a stale output that the program did not rewrite passes the check
     ELSE IF k < NInputs THEN /\ k' = k + 1 /\ pc' = "checkexisting" /\ UNCHANGED <<cv, d, exe, log, outfiles, ctor, result>>
     ELSE /\ pc' = "done" /\ result' = (IF cv.op = "batch2" THEN "list" ELSE "path")
          /\ UNCHANGED <<cv, d, exe, log, k, outfiles, ctor>>
Next == Pick \/ Start \/ Resolve \/ RunVersion \/ CheckVersion \/ MkOutDir \/ CheckInputs \/ CheckExisting \/ RunConvert \/ CheckOutput
Spec == Init /\ [][Next]_vars

\* ---- properties of the design ----
Done == pc = "done"
NConv == Cardinality({i \in 1..Len(log) : log[i][1] = "convert"})
\* the program is asked for its version exactly once per constructed converter, before anything else
VersionFirst == (Len(log) >= 1) => (log[1][1] = "version" /\ \A i \in 2..Len(log) : log[i][1] = "convert")
\* nothing is converted unless the converter was constructed, every input exists, and no refused overwrite precedes
NoConvertAfterRefusal ==
  Done => /\ (ctor # "constructed" => NConv = 0)
          /\ (cv.inmiss # 0 => NConv = 0)
          /\ (result = "FileExistsError" => \A i \in 1..2 : outfiles[i] = "old" => (cv.pre = i))
\* an output that existed before is replaced only with overwrite = TRUE
NoSilentOverwrite == pc # "pick" => \A i \in 1..2 : (cv.pre = i /\ ~cv.overwrite) => outfiles[i] = "old"
\* convert() returns paths only when every output exists
ReturnsOnlyExisting == (Done /\ result \in {"path", "list"}) => \A i \in 1..NInputs : outfiles[i] # "absent"
\* a failing program never makes convert() return
FailurePropagates == (Done /\ ctor = "constructed" /\ cv.inmiss = 0 /\ cv.beh \in {"fail_before", "fail_after"}
                      /\ (\A i \in 1..cv.behat : cv.pre # i \/ cv.overwrite)) => result = "RuntimeError"
TypeOK == pc \in {"pick", "resolve", "runversion", "checkversion", "mkoutdir", "checkinputs", "checkexisting", "runconvert", "checkoutput", "done"}

Emit == Done => PrintT(ToJson([cv |-> cv, ctor |-> ctor, result |-> result, log |-> log, outfiles |-> outfiles]))
=============================================================================
