------------------------------ MODULE ColorCtx ------------------------------
(***************************************************************************)
(* Encoder processes and the colour context (C12, C14, C15).                *)
(*                                                                         *)
(* Every thread t runs a program prog[t]: a sequence of operations          *)
(* <<kind, doc>> with kind in {"construct", "encode"}.  An encode is the     *)
(* sequence of steps the code takes:                                        *)
(*   SetCtx   color_service.set_document_context(document)                  *)
(*   Lookup   color_service.get_rtf_color_index(colour)   (once per use)    *)
(*   Fail     an exception leaves rtf_encode() (non-contiguous group_by)    *)
(*   EmitTable  the dense colour table is generated from the document       *)
(*   ClearCtx   color_service.clear_document_context()                      *)
(* The context is one process-global slot when Shared = TRUE, one slot per  *)
(* thread otherwise.  Documents are abstract: a palette (set of master      *)
(* indices), the sequence of colours looked up while rendering, the         *)
(* encoding path, whether rendering fails, and which shared RTFBody object  *)
(* (if any) they were built with.                                           *)
(*                                                                         *)
(* Deviation flags (TRUE = the design the properties describe):             *)
(*   SetOnAllPaths  multi-section and figure paths set/clear the context    *)
(*   ClearOnError   the context is cleared when encoding raises             *)
(*   CopyOnConstruct  construction does not write into caller's components  *)
(***************************************************************************)
EXTENDS Naturals, Integers, Sequences, FiniteSets, TLC, Json

CONSTANTS Threads, Progs,        \* Progs: set of candidate program assignments [Threads -> Seq(op)]
          Shared, SetOnAllPaths, ClearOnError, CopyOnConstruct

\* ---- the document pool ----
DocIds == {"plain", "colA", "colB", "multi", "fig", "fail", "share2", "share3", "paged", "pagedfn", "pagedhdr", "multi13",
           \* a 1x1 table on the shared RTFBody(); two tables sharing RTFBody(col_rel_width=[1]); coloured borders only /
           \* coloured borders after another colour; a border matrix with the shape of a page; same paper, other margins
           "share1", "sharew2", "sharew3", "brdA", "brdB", "cyc", "pagedm1", "pagedm2",
           \* two documents on one caller-owned RTFPage; the second is multi-section and fails in its second section
           "pgshare", "pgfail",
           \* two documents on one caller-owned RTFSubline; subline_by + page_by with default new_page; group_by on
           \* different columns with a group continuing over a page break
           "subA", "subB", "sublpb", "grpA", "grpB"}
Pal(dd) == CASE dd = "colA" -> {26, 552} [] dd = "colB" -> {100, 300, 652} [] dd = "multi" -> {26, 100}
            [] dd = "fig" -> {552} [] dd = "fail" -> {300} [] dd = "paged" -> {26, 552}
            [] dd = "brdA" -> {552} [] dd = "brdB" -> {26, 552} [] OTHER -> {}
Uses(dd) == CASE dd = "colA" -> <<552, 26, 552>> [] dd = "colB" -> <<652, 100, 300>> [] dd = "multi" -> <<100, 26>>
             [] dd = "fig" -> <<552>> [] dd = "fail" -> <<300>> [] dd = "paged" -> <<26, 552, 26, 552>>
             [] dd = "brdA" -> <<552, 552>> [] dd = "brdB" -> <<26, 552, 552>> [] OTHER -> <<>>
Path(dd) == CASE dd \in {"multi", "multi13", "pgfail"} -> "multi" [] dd = "fig" -> "figure" [] OTHER -> "single"
Fails(dd) == dd \in {"fail", "pgfail"}
NCols(dd) == CASE dd \in {"share2", "sharew2"} -> 2 [] dd \in {"share3", "sharew3"} -> 3 [] dd = "share1" -> 1 [] OTHER -> 0
\* two caller-owned RTFBody objects are shared between documents: "b" = RTFBody(), "w" = RTFBody(col_rel_width=[1])
Fam(dd) == CASE dd \in {"share1", "share2", "share3"} -> "b" [] dd \in {"sharew2", "sharew3"} -> "w" [] OTHER -> "none"
Fams == {"b", "w"}
SharesBody(dd) == Fam(dd) # "none"
\* documents whose construction is an operation of its own in a history (they are built on a caller-owned component)
Constructible(dd) == SharesBody(dd) \/ dd \in {"subA", "subB", "pgshare"}

VARIABLES prog, ctx, pc, h, k, cur, res, body, built
vars == <<prog, ctx, pc, h, k, cur, res, body, built>>
\* ctx[slot] = <<isSet, palette>> ; pc[t] in {"idle","set","render","table","clear"} ; h[t] = index of the current op
\* cur[t] = indices looked up so far by the running encode ; res[t] = results of finished ops
\* body[f] = col_rel_width length stored in the shared RTFBody of family f (0 = unset) ; built[d] = widths the document d sees

Slot(t) == IF Shared THEN "g" ELSE t
Slots == IF Shared THEN {"g"} ELSE Threads
Dense(S, c) == IF c \in S THEN Cardinality({x \in S : x <= c}) ELSE 0
SortedSeq(S) == LET n == Cardinality(S) IN [i \in 1..n |-> CHOOSE x \in S : Cardinality({y \in S : y <= x}) = i]

Init == /\ prog \in Progs
        /\ ctx = [s \in Slots |-> <<FALSE, {}>>]
        /\ pc = [t \in Threads |-> "idle"] /\ h = [t \in Threads |-> 1] /\ k = [t \in Threads |-> 1]
        /\ cur = [t \in Threads |-> <<>>] /\ res = [t \in Threads |-> <<>>]
        /\ body = [f \in Fams |-> 0] /\ built = [x \in DocIds |-> 0]

Op(t) == prog[t][h[t]]
HasOp(t) == h[t] <= Len(prog[t])
SetsCtx(dd) == Path(dd) = "single" \/ SetOnAllPaths

\* RTFDocument(...): default col_rel_width is written into the (possibly shared) RTFBody
BodyAfter(dd) == IF SharesBody(dd) /\ ~CopyOnConstruct /\ body[Fam(dd)] = 0 THEN [body EXCEPT ![Fam(dd)] = NCols(dd)] ELSE body
BuiltAfter(dd) == IF SharesBody(dd) /\ ~CopyOnConstruct
                  THEN [built EXCEPT ![dd] = IF body[Fam(dd)] = 0 THEN NCols(dd) ELSE body[Fam(dd)]]
                  ELSE [built EXCEPT ![dd] = NCols(dd)]
Construct(t) ==
  /\ pc[t] = "idle" /\ HasOp(t) /\ Op(t)[1] = "construct"
  /\ body' = BodyAfter(Op(t)[2]) /\ built' = BuiltAfter(Op(t)[2])
  /\ h' = [h EXCEPT ![t] = @ + 1]
  /\ res' = [res EXCEPT ![t] = Append(@, <<"construct", Op(t)[2]>>)]
  /\ UNCHANGED <<prog, ctx, pc, k, cur>>

\* an encode of a document that was not constructed earlier in the history constructs it first
Begin(t) == /\ pc[t] = "idle" /\ HasOp(t) /\ Op(t)[1] = "encode"
            /\ pc' = [pc EXCEPT ![t] = IF SetsCtx(Op(t)[2]) THEN "set" ELSE "render"]
            /\ k' = [k EXCEPT ![t] = 1] /\ cur' = [cur EXCEPT ![t] = <<>>]
            /\ IF SharesBody(Op(t)[2]) /\ built[Op(t)[2]] = 0
               THEN body' = BodyAfter(Op(t)[2]) /\ built' = BuiltAfter(Op(t)[2])
               ELSE UNCHANGED <<body, built>>
            /\ UNCHANGED <<prog, ctx, h, res>>
SetCtx(t) == /\ pc[t] = "set"
             /\ ctx' = [ctx EXCEPT ![Slot(t)] = <<TRUE, Pal(Op(t)[2])>>]
             /\ pc' = [pc EXCEPT ![t] = "render"]
             /\ UNCHANGED <<prog, h, k, cur, res, body, built>>
Lookup(t) == /\ pc[t] = "render" /\ k[t] <= Len(Uses(Op(t)[2]))
             /\ LET c == Uses(Op(t)[2])[k[t]]
                    idx == IF ctx[Slot(t)][1] THEN Dense(ctx[Slot(t)][2], c) ELSE c   \* master index without a context
                IN cur' = [cur EXCEPT ![t] = Append(@, idx)]
             /\ k' = [k EXCEPT ![t] = @ + 1]
             /\ UNCHANGED <<prog, ctx, pc, h, res, body, built>>
Fail(t) == /\ pc[t] = "render" /\ k[t] > Len(Uses(Op(t)[2])) /\ Fails(Op(t)[2])
           /\ ctx' = (IF ClearOnError /\ SetsCtx(Op(t)[2]) THEN [ctx EXCEPT ![Slot(t)] = <<FALSE, {}>>] ELSE ctx)
           /\ res' = [res EXCEPT ![t] = Append(@, <<"ValueError", Op(t)[2]>>)]
           /\ pc' = [pc EXCEPT ![t] = "idle"] /\ h' = [h EXCEPT ![t] = @ + 1]
           /\ UNCHANGED <<prog, k, cur, body, built>>
EndRender(t) == /\ pc[t] = "render" /\ k[t] > Len(Uses(Op(t)[2])) /\ ~Fails(Op(t)[2])
                /\ pc' = [pc EXCEPT ![t] = "table"]
                /\ UNCHANGED <<prog, ctx, h, k, cur, res, body, built>>
\* the colour table is generated from the document itself (collect_document_colors)
EmitTable(t) == /\ pc[t] = "table"
                /\ LET dd == Op(t)[2] IN
                     res' = [res EXCEPT ![t] = Append(@, <<"ok", dd, cur[t], SortedSeq(Pal(dd)),
                                                           IF SharesBody(dd) THEN built[dd] ELSE 0>>)]
                /\ pc' = [pc EXCEPT ![t] = IF SetsCtx(Op(t)[2]) THEN "clear" ELSE "idle"]
                /\ h' = (IF SetsCtx(Op(t)[2]) THEN h ELSE [h EXCEPT ![t] = @ + 1])
                /\ UNCHANGED <<prog, ctx, k, cur, body, built>>
ClearCtx(t) == /\ pc[t] = "clear"
               /\ ctx' = [ctx EXCEPT ![Slot(t)] = <<FALSE, {}>>]
               /\ pc' = [pc EXCEPT ![t] = "idle"] /\ h' = [h EXCEPT ![t] = @ + 1]
               /\ UNCHANGED <<prog, k, cur, res, body, built>>
Next == \E t \in Threads : Construct(t) \/ Begin(t) \/ SetCtx(t) \/ Lookup(t) \/ Fail(t) \/ EndRender(t)
                           \/ EmitTable(t) \/ ClearCtx(t)
Spec == Init /\ [][Next]_vars

Terminated == \A t \in Threads : pc[t] = "idle" /\ ~HasOp(t)

\* ---- properties ----
\* what an encode of dd returns when run alone in a fresh process
Alone(dd) == <<"ok", dd, [j \in 1..Len(Uses(dd)) |-> Dense(Pal(dd), Uses(dd)[j])], SortedSeq(Pal(dd)),
               IF SharesBody(dd) THEN NCols(dd) ELSE 0>>
IsEncodeResult(x) == x[1] = "ok"
\* C14 / C15: every finished encode returned what it returns alone
Isolation == \A t \in Threads : \A j \in 1..Len(res[t]) : IsEncodeResult(res[t][j]) => res[t][j] = Alone(res[t][j][2])
\* C12: every index refers to the document's own table entry of the requested colour
Resolves == \A t \in Threads : \A j \in 1..Len(res[t]) : IsEncodeResult(res[t][j]) =>
               LET dd == res[t][j][2]  idxs == res[t][j][3]  tbl == res[t][j][4] IN
                 \A u \in 1..Len(idxs) : idxs[u] \in 1..Len(tbl) /\ tbl[idxs[u]] = Uses(dd)[u]
\* the context never outlives the encode that set it (what makes histories independent)
CtxReleased == Terminated => \A s \in Slots : ~ctx[s][1]
TypeOK == \A t \in Threads : pc[t] \in {"idle", "set", "render", "table", "clear"}

Emit == Terminated => PrintT(ToJson([prog |-> prog, res |-> res]))
=============================================================================
