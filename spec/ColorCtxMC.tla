----------------------------- MODULE ColorCtxMC -----------------------------
(* Program sets (model-checking instances) for ColorCtx. *)
EXTENDS ColorCtx
Enc(dd) == <<"encode", dd>>
Con(dd) == <<"construct", dd>>
\* C12: one thread, one encode of each pool document
Progs1 == {[t \in {"A"} |-> <<Enc(dd)>>] : dd \in {x \in DocIds : ~Fails(x)}}
\* C14: one thread, every history of at most MaxHist operations followed by the target encode
HistOps == {Enc(dd) : dd \in DocIds} \cup {Con(dd) : dd \in {x \in DocIds : Constructible(x)}}
Targets == {x \in DocIds : ~Fails(x)}
Hists(n) == UNION {[1..m -> HistOps] : m \in 0..n}
\* (an operator with a parameter: TLC evaluates zero-arity definitions eagerly, and Hists(3) has |HistOps|^3 elements)
ProgsHist(n) == {[t \in {"A"} |-> hs \o <<Enc(tg)>>] : hs \in Hists(n), tg \in Targets}
\* C15: two / three threads, one encode each
Conc == {"colA", "colB", "multi", "fig", "plain"}
Progs2 == {[t \in {"A", "B"} |-> IF t = "A" THEN <<Enc(a)>> ELSE <<Enc(b)>>] : a \in Conc, b \in Conc}
Progs3 == {[t \in {"A", "B", "C"} |-> IF t = "A" THEN <<Enc("colA")>> ELSE IF t = "B" THEN <<Enc("colB")>> ELSE <<Enc(c)>>] : c \in {"multi", "colA"}}
=============================================================================
