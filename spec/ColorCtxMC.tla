----------------------------- MODULE ColorCtxMC -----------------------------
(* Program sets (model-checking instances) for ColorCtx. *)
EXTENDS ColorCtx
Enc(dd) == <<"encode", dd>>
Con(dd) == <<"construct", dd>>
\* C12: one thread, one encode of each pool document
Progs1 == {[t \in {"A"} |-> <<Enc(dd)>>] : dd \in DocIds \ {"fail"}}
\* C14: one thread, every history of at most MaxHist operations followed by the target encode
HistOps == {Enc(dd) : dd \in DocIds} \cup {Con(dd) : dd \in {"share2", "share3"}}
Targets == DocIds \ {"fail"}
Hists(n) == UNION {[1..m -> HistOps] : m \in 0..n}
ProgsHist1 == {[t \in {"A"} |-> hs \o <<Enc(tg)>>] : hs \in Hists(1), tg \in Targets}
ProgsHist2 == {[t \in {"A"} |-> hs \o <<Enc(tg)>>] : hs \in Hists(2), tg \in Targets}
ProgsHist3 == {[t \in {"A"} |-> hs \o <<Enc(tg)>>] : hs \in Hists(3), tg \in Targets}
\* C15: two / three threads, one encode each
Conc == {"colA", "colB", "multi", "fig", "plain"}
Progs2 == {[t \in {"A", "B"} |-> IF t = "A" THEN <<Enc(a)>> ELSE <<Enc(b)>>] : a \in Conc, b \in Conc}
Progs3 == {[t \in {"A", "B", "C"} |-> IF t = "A" THEN <<Enc("colA")>> ELSE IF t = "B" THEN <<Enc("colB")>> ELSE <<Enc(c)>>] : c \in {"multi", "colA"}}
=============================================================================
