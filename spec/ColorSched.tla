------------------------------ MODULE ColorSched ------------------------------
(* ColorCtx with a history variable recording which thread performed each colour-context
   step (SetCtx / Lookup / ClearCtx): every terminal state is one schedule of the colour
   events, replayed against real threads by harness/sched.py. *)
EXTENDS ColorCtxMC
VARIABLE sched
svars == <<prog, ctx, pc, h, k, cur, res, body, built, sched>>
SInit == Init /\ sched = <<>>
SNext == \E t \in Threads :
           \/ ((SetCtx(t) \/ Lookup(t) \/ ClearCtx(t)) /\ sched' = Append(sched, t))
           \/ ((Construct(t) \/ Begin(t) \/ Fail(t) \/ EndRender(t) \/ EmitTable(t)) /\ UNCHANGED sched)
SSpec == SInit /\ [][SNext]_svars
SEmit == Terminated => PrintT(ToJson([prog |-> prog, sched |-> sched, res |-> res]))
=============================================================================
