----------------------------- MODULE CellTrace -----------------------------
(* Property-level trace specification for C09: one behaviour per recorded encode; each step
   consumes one observed data cell (its original row, displayed column, the attribute value
   read back as an enum index, and the value read back from the unpaginated rendering). *)
EXTENDS Naturals, Integers, Sequences, FiniteSets, TLC, Json, IOUtils, CellCfg
CONSTANT Judge
All == JsonDeserialize(IOEnv.TRACE_FILE)
VARIABLES tid, l, bad
vars == <<tid, l, bad>>
E(t) == All[t].ev
C09_Direct(x, ev, pos) == (pos <= Len(ev) /\ ~ev[pos].skip) => ev[pos].idx = Expected(x, ev[pos].r, ev[pos].j)
C09_Meta(x, ev, pos) == (pos <= Len(ev) /\ ~ev[pos].skip) => ev[pos].idx = ev[pos].idx1
C09_Complete(x, ev, pos) == (pos = Len(ev) + 1) => Len(ev) = x.n * NDisp(x)
C09_Addressed(x, ev, pos) == \* cells arrive in row-major order of the original rows
  (pos <= Len(ev)) => /\ ev[pos].r = ((pos - 1) \div NDisp(x)) + 1
                      /\ ev[pos].j = (pos - 1) % NDisp(x)
Holds(name, x, ev, pos) ==
  CASE name = "C09_Direct" -> C09_Direct(x, ev, pos)
    [] name = "C09_Meta" -> C09_Meta(x, ev, pos)
    [] name = "C09_Complete" -> C09_Complete(x, ev, pos)
    [] name = "C09_Addressed" -> C09_Addressed(x, ev, pos)
Init == tid \in 1..Len(All) /\ l = 1 /\ bad = {}
Failing(t, pos) == {y \in Judge : ~Holds(y, All[t].c, E(t), pos)}
ConsumeCell == /\ l <= Len(E(tid)) + 1
               /\ bad' = bad \cup {[cl |-> y, at |-> l] : y \in Failing(tid, l)}
               /\ l' = l + 1 /\ UNCHANGED tid
Finish == /\ l = Len(E(tid)) + 2
          /\ PrintT(ToJson([id |-> All[tid].id, bad |-> bad]))
          /\ l' = l + 1 /\ UNCHANGED <<tid, bad>>
Next == ConsumeCell \/ Finish
Spec == Init /\ [][Next]_vars
=============================================================================
