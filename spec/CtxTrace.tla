------------------------------- MODULE CtxTrace -------------------------------
(***************************************************************************)
(* Conformance trace specification for the colour context (C15, C14):      *)
(* the colour-service events recorded from real threads (set / lookup /    *)
(* clear, with thread, colour and returned index) must be a behaviour of    *)
(* ColorCtx's SetCtx / Lookup / ClearCtx with the context slot chosen by    *)
(* the constant Shared.  Each Trace* action is IsEvent(kind) /\ the state   *)
(* update of the corresponding ColorCtx action /\ the logged result.        *)
(* A trace that cannot be consumed to its end is reported with the position *)
(* of the first event that no action explains.                              *)
(***************************************************************************)
EXTENDS Naturals, Integers, Sequences, FiniteSets, TLC, Json, IOUtils
CONSTANT Shared
All == JsonDeserialize(IOEnv.TRACE_FILE)
VARIABLES tid, l, ctx, stuck
vars == <<tid, l, ctx, stuck>>
Ev(t) == All[t].ev
ThreadsOf(t) == {Ev(t)[j].t : j \in 1..Len(Ev(t))}
Slot(th) == IF Shared THEN "g" ELSE th
Dense(S, c) == IF c \in S THEN Cardinality({x \in S : x <= c}) ELSE 0
AsSet(s) == {s[j] : j \in 1..Len(s)}
Empty == <<FALSE, {}>>
Get(th) == IF Slot(th) \in DOMAIN ctx THEN ctx[Slot(th)] ELSE Empty
Put(th, v) == [s \in (DOMAIN ctx) \cup {Slot(th)} |-> IF s = Slot(th) THEN v ELSE ctx[s]]

Init == tid \in 1..Len(All) /\ l = 1 /\ ctx = [s \in {} |-> Empty] /\ stuck = 0
IsEvent(kind) == stuck = 0 /\ l <= Len(Ev(tid)) /\ Ev(tid)[l].op = kind
TraceSetCtx == /\ IsEvent("set")
               /\ ctx' = Put(Ev(tid)[l].t, <<TRUE, AsSet(Ev(tid)[l].pal)>>)
               /\ l' = l + 1 /\ UNCHANGED <<tid, stuck>>
TraceLookup == /\ IsEvent("lookup")
               /\ LET e == Ev(tid)[l]  c == Get(e.t) IN
                    e.idx = (IF c[1] THEN Dense(c[2], e.colour) ELSE e.colour)
               /\ l' = l + 1 /\ UNCHANGED <<tid, ctx, stuck>>
TraceClearCtx == /\ IsEvent("clear")
                 /\ ctx' = Put(Ev(tid)[l].t, Empty)
                 /\ l' = l + 1 /\ UNCHANGED <<tid, stuck>>
\* no action explains the next event: record where, so that the verdict is total
Stuck == /\ stuck = 0 /\ l <= Len(Ev(tid))
         /\ ~ENABLED TraceSetCtx /\ ~ENABLED TraceLookup /\ ~ENABLED TraceClearCtx
         /\ stuck' = l /\ UNCHANGED <<tid, l, ctx>>
Finish == /\ (l = Len(Ev(tid)) + 1 \/ stuck # 0) /\ l <= Len(Ev(tid)) + 1
          /\ PrintT(ToJson([id |-> All[tid].id, stuck |-> stuck, consumed |-> l - 1]))
          /\ l' = Len(Ev(tid)) + 2 /\ UNCHANGED <<tid, ctx, stuck>>
Next == TraceSetCtx \/ TraceLookup \/ TraceClearCtx \/ Stuck \/ Finish
Spec == Init /\ [][Next]_vars
=============================================================================
