"""Driver for C19: one implementation test per row of the decision table of spec/Validate.tla."""
from __future__ import annotations

import os
import random
import shutil
import tempfile

from common import setup_path

setup_path()

VALID = {
    "border": ["single", "double", "", "dashed", "thick"],
    "colour": ["red", "blue", "grey39", "darkgreen", ""],
    "font": [1, 4, 9, 10],
    "format": ["", "b", "i", "bi", "u", "s", "^", "_"],
    "just": ["l", "c", "r", "j"],
    "valign": ["top", "center", "bottom"],
    "positive": [1, 2.5, 9, 0.15, 12],
    "orientation": ["portrait", "landscape"],
    "placement": ["first", "last", "all"],
    "pageby_row": ["column", "first_row"],
}


FIELD_VALID = {"border_width": [15, 30, 45], "cell_height": [0.15, 0.3, 0.5], "text_font_size": [8, 9, 10, 12], "col_rel_width": [1.0, 2.5, 0.5],
               "width": [8.5, 11.0], "height": [11.0, 8.5], "nrow": [20, 40], "col_width": [6.25, 5.0]}
FIELD_INVALID = {"border_width": [0, -1, -15, -100], "nrow": [0, -1, -20]}


def invalid_value(cat, rng):
    if cat in ("border", "colour", "just", "valign", "orientation", "placement", "pageby_row", "format"):
        good = VALID[cat]
        base = rng.choice([g for g in good if g] or ["x"])
        cands = [base.upper() if base.upper() != base else base + "x", base + "x", " " + base, base[:-1] + "?" if len(base) > 1 else "zz",
                 "nope", "singel", "rouge", "centre", "q", "B?", "landscap", "middle", "every"]
        if cat == "format":
            cands = ["x", "bx", "z", "B", "b!", "ib?", "1"]
        if cat == "colour":
            cands += ["Red", "notacolour", "#ff0000", "grey101", "bleu"]
        if cat == "just":
            cands = ["x", "L", "left", "cc", "m", "q"]
        # two legal keywords run together are not a legal keyword (substring tests against a joined alphabet accept them)
        legal = [g for g in good if g]
        if len(legal) >= 2 and cat != "format":      # (format letters combine freely: "bi" is legal)
            a, b2 = rng.sample(legal, 2)
            cands += [a + b2, b2 + a, "".join(legal[:3]), "".join(legal)]
        v = rng.choice(cands)
        while v in good:
            v = v + "?"
        return v
    if cat == "font":
        return rng.choice([0, 11, -1, 99, 12])
    if cat == "positive":
        return rng.choice([0, -1, -0.5, -1e-9, -100, 0.0])
    raise KeyError(cat)


def shaped(cat, shape, pos, bad, rng, ncol=3, nrow=3, field=None):
    pool = FIELD_VALID.get(field, VALID[cat])
    good = lambda: rng.choice(pool)  # noqa: E731
    if shape == "scalar":
        return bad, good()
    def place(n):
        return {"first": 0, "middle": n // 2, "last": n - 1}[pos]
    if shape == "vector":
        v = [good() for _ in range(ncol)]
        ok = list(v)
        v[place(ncol)] = bad
        return v, ok
    if shape == "ragged":
        # a nested list whose first row is shorter than the later ones; the bad value sits beyond the first row's width
        m = [[good()]] + [[good() for _ in range(ncol)] for _ in range(nrow - 1)]
        ok = [list(r) for r in m]
        r, c_ = {"first": (1, 1), "middle": (1, ncol - 1), "last": (nrow - 1, ncol - 1)}[pos]
        m[r][c_] = bad
        return m, ok
    m = [[good() for _ in range(ncol)] for _ in range(nrow)]
    ok = [list(r) for r in m]
    m[place(nrow)][place(ncol)] = bad
    return m, ok


def _construct(cls, kwargs):
    import rtflite as rtf
    return getattr(rtf, cls)(**kwargs)


def _classify(fn):
    try:
        fn()
        return "accepted"
    except FileNotFoundError:
        return "FileNotFoundError"
    except ValueError:
        return "ValueError"
    except Exception as ex:  # noqa
        return "other:" + type(ex).__name__


def attempt(row, rng, tmp):
    """Returns {"outcome", "control", "value"} for one invalid value of the row."""
    import polars as pl
    import rtflite as rtf
    cls, field, cat, shape, pos = row["cls"], row["field"], row["cat"], row["shape"], row["pos"]
    df = pl.DataFrame({"a": ["1", "2", "3"], "b": ["x", "y", "z"], "c": ["p", "q", "r"]})
    extra = {"text": "t"} if cls in ("RTFTitle", "RTFSubline", "RTFPageHeader", "RTFPageFooter", "RTFFootnote", "RTFSource") else {}
    if cls == "RTFColumnHeader":
        extra = {"text": ["A", "B", "C"]}
    if cat in VALID or cat in ("font", "positive"):
        bad = rng.choice(FIELD_INVALID[field]) if field in FIELD_INVALID else invalid_value(cat, rng)
        if cls == "RTFPage":
            val, ok = bad, rng.choice(FIELD_VALID.get(field, VALID[cat]))
        elif field == "col_rel_width" and shape == "scalar":
            val, ok = bad, 1.5
        else:
            val, ok = shaped(cat, shape, pos, bad, rng, field=field)
            if cls in ("RTFTitle", "RTFSubline", "RTFPageHeader", "RTFPageFooter") and shape == "vector":
                extra = {"text": ["l1", "l2", "l3"]}
        out = _classify(lambda: _construct(cls, {field: val, **extra}))
        ctl = _classify(lambda: _construct(cls, {field: ok, **extra})) == "accepted"
        return {"outcome": out, "control": ctl, "value": repr(val)[:120]}
    if cat == "length6":
        n = rng.choice([0, 1, 5, 7, 4])
        val = [1.0] * n
        return {"outcome": _classify(lambda: rtf.RTFPage(margin=val)), "control": _classify(lambda: rtf.RTFPage(margin=[1.0] * 6)) == "accepted", "value": repr(val)}
    if cat == "cross_new_page":
        # new_page needs page_by: no other grouping option stands in for it
        other = rng.choice([{}, {"subline_by": ["a"]}, {"group_by": ["a"]}, {"subline_by": ["a"], "group_by": ["b"]}])
        return {"outcome": _classify(lambda: rtf.RTFBody(new_page=True, **other)), "control": _classify(lambda: rtf.RTFBody(new_page=True, page_by=["a"])) == "accepted" and _classify(lambda: rtf.RTFBody(**other)) == "accepted",
                "value": "new_page=True %r" % (other,)}
    if cat == "missing_file":
        good = os.path.join(tmp, "ok.png")
        with open(good, "wb") as f:
            f.write(b"\x89PNG\r\n\x1a\n" + b"\x00" * 30)
        missing = os.path.join(tmp, "missing%d.png" % rng.randint(0, 999))
        if rng.random() < 0.5:
            # a file that existed, was accepted by an earlier construction in this process, and has been deleted since
            with open(missing, "wb") as f:
                f.write(b"\x89PNG\r\n\x1a\n" + b"\x00" * 30)
            rtf.RTFFigure(figures=missing)
            os.remove(missing)
        val = rng.choice([missing, [good, missing], [missing, good]])
        return {"outcome": _classify(lambda: rtf.RTFFigure(figures=val)), "control": _classify(lambda: rtf.RTFFigure(figures=good)) == "accepted", "value": repr(val)[-80:]}
    if cat == "missing_column":
        col = rng.choice(["zz", "A", "a ", "d"])
        val = rng.choice([[col], ["a", col], col])
        kw = {field: val}
        if rng.random() < 0.4:
            # multi-section: the column exists, but only in the OTHER section's data
            df2 = pl.DataFrame({"a": ["1", "2"], "other": ["u", "v"]})
            kw2 = {field: rng.choice([["other"], ["a", "other"], "other"])}
            order = rng.random() < 0.5
            dfs = [df, df2] if order else [df2, df]
            bodies = [rtf.RTFBody(**kw2), rtf.RTFBody()] if order else [rtf.RTFBody(), rtf.RTFBody(**kw2)]
            okb = [rtf.RTFBody(**{field: ["a"]}), rtf.RTFBody()] if order else [rtf.RTFBody(), rtf.RTFBody(**{field: ["a"]})]
            return {"outcome": _classify(lambda: rtf.RTFDocument(df=dfs, rtf_body=bodies)),
                    "control": _classify(lambda: rtf.RTFDocument(df=dfs, rtf_body=okb)) == "accepted",
                    "value": "2 sections, %r names a column of the other section" % (kw2,)}
        return {"outcome": _classify(lambda: rtf.RTFDocument(df=df, rtf_body=rtf.RTFBody(**kw))),
                "control": _classify(lambda: rtf.RTFDocument(df=df, rtf_body=rtf.RTFBody(**{field: ["a"]}))) == "accepted", "value": repr(val)}
    good = os.path.join(tmp, "ok2.png")
    with open(good, "wb") as f:
        f.write(b"\x89PNG\r\n\x1a\n" + b"\x00" * 30)
    if cat == "cross_both":
        return {"outcome": _classify(lambda: rtf.RTFDocument(df=df, rtf_figure=rtf.RTFFigure(figures=good))),
                "control": _classify(lambda: rtf.RTFDocument(df=df)) == "accepted", "value": "df and figure"}
    if cat == "cross_neither":
        return {"outcome": _classify(lambda: rtf.RTFDocument()), "control": _classify(lambda: rtf.RTFDocument(rtf_figure=rtf.RTFFigure(figures=good))) == "accepted",
                "value": "neither"}
    if cat == "cross_lengths":
        if field == "sections":
            k = rng.choice([1, 3])
            return {"outcome": _classify(lambda: rtf.RTFDocument(df=[df, df], rtf_body=[rtf.RTFBody() for _ in range(k)])),
                    "control": _classify(lambda: rtf.RTFDocument(df=[df, df], rtf_body=[rtf.RTFBody(), rtf.RTFBody()])) == "accepted", "value": "2 df, %d bodies" % k}
        k = rng.choice([1, 3])
        hdr = [[rtf.RTFColumnHeader(text=["A", "B", "C"])] for _ in range(k)]
        return {"outcome": _classify(lambda: rtf.RTFDocument(df=[df, df], rtf_body=[rtf.RTFBody(), rtf.RTFBody()], rtf_column_header=hdr)),
                "control": _classify(lambda: rtf.RTFDocument(df=[df, df], rtf_body=[rtf.RTFBody(), rtf.RTFBody()],
                                                             rtf_column_header=[[rtf.RTFColumnHeader(text=["A", "B", "C"])], [None]])) == "accepted",
                "value": "2 df, %d header lists" % k}
    raise KeyError(cat)


def run_row(item):
    rng = random.Random(item["seed"])
    tmp = tempfile.mkdtemp(prefix="rtflite-verif-val-")
    try:
        ev = []
        for _ in range(item["tries"]):
            a = attempt(item["row"], rng, tmp)
            ev.append(a)
        return {"id": item["id"], "c": item["row"], "ev": ev}
    finally:
        shutil.rmtree(tmp, ignore_errors=True)
