"""Generic steps shared by the checks: cfg-file generation, scenario generation with TLC,
batch trace validation with TLC, classification against known findings."""
from __future__ import annotations

import json
import os
import shutil
import tempfile

import tlc
from common import Ctx, MachineryError, write_json


def tla(v):
    if isinstance(v, bool):
        return "TRUE" if v else "FALSE"
    if isinstance(v, int):
        return str(v)
    if isinstance(v, str):
        return '"%s"' % v
    if isinstance(v, (set, frozenset)):
        return "{" + ", ".join(tla(x) for x in sorted(v, key=lambda x: (str(type(x)), x))) + "}"
    if isinstance(v, (list, tuple)):
        return "<<" + ", ".join(tla(x) for x in v) + ">>"
    raise TypeError(v)


class Work:
    """Scratch directory for one check run, removed at exit."""

    def __init__(self):
        self.dir = tempfile.mkdtemp(prefix="rtflite-verif-")

    def path(self, name):
        return os.path.join(self.dir, name)

    def cfg(self, name, constants, invariants=(), properties=(), spec="Spec", constraint=None):
        p = self.path(name)
        with open(p, "w") as f:
            f.write("SPECIFICATION %s\n" % spec)
            if constants:
                f.write("CONSTANTS\n")
                for k, v in constants.items():
                    f.write("  %s = %s\n" % (k, tla(v)))
            for i in invariants:
                f.write("INVARIANT %s\n" % i)
            for i in properties:
                f.write("PROPERTY %s\n" % i)
            if constraint:
                f.write("CONSTRAINT %s\n" % constraint)
        return p

    def close(self):
        shutil.rmtree(self.dir, ignore_errors=True)


def generate(ctx: Ctx, work: Work, module: str, constants: dict, name: str, *, simulate_num: int | None = None,
             depth: int = 60, seed: int | None = None, emit="Emit", timeout=1800):
    """Run the generator configuration; returns the list of emitted JSON objects."""
    cfg = work.cfg(name + ".cfg", constants, invariants=[emit])
    if simulate_num:
        res = tlc.run(module, cfg, simulate="num=%d" % simulate_num, depth=depth, seed=seed if seed is not None else ctx.seed,
                      workers=1, timeout=timeout, coverage=False)
    else:
        res = tlc.run(module, cfg, timeout=timeout, coverage=False)
    if res.violated:
        raise MachineryError("generator run reported a violation: %s\n%s" % (res.violated, res.counterexample[:1500]))
    ctx.add_tlc("generate:" + name, res)
    # TLC workers print in a nondeterministic order: sort so that ids, seeds and samples are reproducible
    return sorted(res.json_lines, key=lambda x: json.dumps(x, sort_keys=True))


def model_check(ctx: Ctx, work: Work, module: str, constants: dict, invariants, properties, name: str, timeout=1800):
    cfg = work.cfg(name + ".cfg", constants, invariants=invariants, properties=properties)
    res = tlc.run(module, cfg, timeout=timeout)
    ctx.add_tlc("model:" + name, res)
    return res


def validate(ctx: Ctx, work: Work, module: str, traces: list, judge, name="trace", chunk=1500, extra_constants=None,
             timeout=1800):
    """Batch trace validation.  Returns {trace id: [ {cl, at}, ... ]} for every trace."""
    verdicts = {}
    for k in range(0, len(traces), chunk):
        part = traces[k:k + chunk]
        tf = work.path("%s-%d.json" % (name, k))
        write_json(tf, part)
        consts = {"Judge": set(judge)}
        if extra_constants:
            consts.update(extra_constants)
        cfg = work.cfg("%s-%d.cfg" % (name, k), consts)
        res = tlc.run(module, cfg, env={"TRACE_FILE": tf}, timeout=timeout)
        if res.violated:
            raise MachineryError("trace spec violated an invariant: %s" % res.violated)
        ctx.add_tlc("validate:%s[%d:%d]" % (name, k, k + len(part)), res)
        got = {}
        for j in res.json_lines:
            if isinstance(j, dict) and "id" in j and "bad" in j:
                got[j["id"]] = j["bad"]
        missing = [t["id"] for t in part if t["id"] not in got]
        if missing:
            raise MachineryError("trace validation produced no verdict for %d traces (first %r)\n%s"
                                 % (len(missing), missing[0], res.stdout[-1500:]))
        verdicts.update(got)
        os.unlink(tf)
    ctx.traces += len(traces)
    return verdicts
