"""C19: invalid configuration is rejected up front with ValueError."""
from __future__ import annotations

import json

import family
import validate19
from common import Ctx, MachineryError, pmap

IMPL_FIELD_NAME_LOOKUP = True      # deviation flag: validators can name their field (no AttributeError)
CLASSES = {"RTFPage", "RTFBody", "RTFColumnHeader", "RTFFootnote", "RTFSource", "RTFTitle", "RTFSubline", "RTFPageHeader", "RTFPageFooter",
           "RTFFigure", "RTFDocument"}
JUDGE = ["C19_Reject", "C19_Control", "C19_Tried"]
TRIES = {"quick": 3, "thorough": 25}


def _judge(ctx, work, recs):
    traces = [{"id": r["id"], "c": r["c"], "ev": [{"outcome": e["outcome"], "control": e["control"]} for e in r["ev"]]} for r in recs]
    verdicts = family.validate(ctx, work, "ValTrace", traces, JUDGE, name="val")
    for r in recs:
        by = {}
        for b in verdicts.get(r["id"], []):
            by.setdefault(b["cl"], []).append(b["at"])
        for cl, ats in by.items():
            at = min(ats)
            e = r["ev"][at - 1] if at <= len(r["ev"]) else {}
            if cl == "C19_Control":
                raise MachineryError("control construction failed for row %s: the harness' valid value is not accepted (%s)" % (r["c"], e))
            ctx.violation("%s: %s(%s=%s) [%s, %s at %s] -> %s" % (cl, r["c"]["cls"], r["c"]["field"], e.get("value"), r["c"]["cat"], r["c"]["shape"], r["c"]["pos"], e.get("outcome")),
                          {"clause": cl, "scenario": {"row": r["c"]}, "attempts": r["ev"]})


def run(pid, tier, seed, replay=None):
    ctx = Ctx(pid, tier, seed)
    work = family.Work()
    try:
        if replay:
            row = json.load(open(replay))["scenario"]["row"]
            rec = validate19.run_row({"id": 0, "row": row, "seed": seed, "tries": TRIES["thorough"]})
            _judge(ctx, work, [rec])
            ctx.note_case("a", True); ctx.note_case("b", True); ctx.sample({"replayed": row}); ctx.rule = "replay"
            return ctx.finish()
        base = dict(Classes=CLASSES, Shapes={"scalar", "vector", "matrix", "ragged"}, Positions={"first", "middle", "last"})
        mc = dict(base); mc["FieldNameLookup"] = True
        res = family.model_check(ctx, work, "Validate", mc, ["Rejected"], [], "intended")
        if res.violated:
            raise MachineryError("intended Validate model violates %s" % res.violated)
        if not IMPL_FIELD_NAME_LOOKUP:
            mc2 = dict(base); mc2["FieldNameLookup"] = False
            res = family.model_check(ctx, work, "Validate", mc2, ["Rejected"], [], "as-implemented")
            ctx.extra["as_implemented_model_violates"] = res.violated
        g = dict(base); g["FieldNameLookup"] = IMPL_FIELD_NAME_LOOKUP
        got = family.generate(ctx, work, "Validate", g, "table")
        ctx.extra["decision_table_rows"] = len(got)
        items = [{"id": i, "row": s["row"], "pred": s["outcome"], "seed": seed * 7919 + i, "tries": TRIES[tier]} for i, s in enumerate(got)]
        recs = pmap(validate19.run_row, items, chunk=8)
        _judge(ctx, work, recs)
        nd = 0
        for it, r in zip(items, recs):
            ctx.note_case(json.dumps(it["row"], sort_keys=True), True)
            ctx.evaluations += len(r["ev"]) - 1
            if any(e["outcome"].replace("other:", "") != it["pred"] for e in r["ev"]):
                nd += 1
                ctx.model_drift("C19 row %s: model predicts %s, observed %s" % (json.dumps(it["row"]), it["pred"], sorted({e["outcome"] for e in r["ev"]})))
        ctx.extra["conformance"] = {"compared_with_model_prediction": len(recs), "drift": nd}
        ctx.exhaustive = True
        for r in recs[:3] + recs[-2:]:
            ctx.sample({"row": r["c"], "attempts": r["ev"][:3]})
        ctx.rule = ("every row (class x validated field x shape x position of the bad value) of the decision table enumerated by TLC from spec/Validate.tla, "
                    "each concretised with %d random invalid values mixed with valid ones; every row is non-trivial; a control construction with the valid value must be accepted" % TRIES[tier])
        ctx.assumptions = ["the set of validated fields is the one the property lists"]
        return ctx.finish()
    finally:
        work.close()
