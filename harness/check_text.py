"""C11: text conversion translates exactly the documented tokens and nothing else."""
from __future__ import annotations

import json
import random

import family
import textconv
import tlc
from common import Ctx, MachineryError, pmap, write_json

# deviation flag of the tree under test: '>=' leaves the delimiter space of \\geq visible
IMPL_GE_SPACE = True
ALPHA = {"x", "A", "B", "M", "p", "1", "sp", "^", "_", ">", "<", "=", "nl", "bs", "G", "E", "H", ".", "T", "F"}
PLAN = {"quick": dict(maxlen=3, sim_len=10, sim_num=1500, ktemplates=9, comps=True),
        "thorough": dict(maxlen=4, sim_len=24, sim_num=20000, ktemplates=40, comps=True)}
# (["x", "K"], ["=", "K", "="]: a composable character directly before the command - a combining-mark command must leave its
#  neighbour as it is, not compose with it)
KTEMPLATES = [["K"], ["x", "sp", "K"], ["K", "sp", "x"], ["K", "K"], ["K", "x"], ["x", "K"], ["=", "K", "="], ["K", "G"], ["K", "E"], ["K", "1"], ["K", "."], ["^", "K"], ["K", ">", "="],
              ["K", "nl", "K"], ["K", "sp", "K"], ["1", "K", "1"], ["K", "A"], ["K", "_", "x"], ["G", "K"], ["K", "sp", "sp", "x"],
              ["K", "p"], ["p", "K"], ["K", "T"], ["F", "K"], ["K", "<", "="], [".", "K", "."], ["K", "B", "x"], ["K", "x", "G"],
              ["K", "sp", "1"], ["x", "^", "K", "_", "x"], ["K", "K", "K"], ["K", "1", "sp", "x"], ["bs", "A", "K"], ["K", "bs", "A"], ["K", "bs", "M", "G"],
              ["nl", "K"], ["K", "nl"], ["sp", "K", "sp"], ["K", "M"], ["K", "G", "G"], ["K", ">"],
              ["K", "H"], ["K", "H", "H"], ["H", "K"], ["K", "sp", "H"], ["bs", "M", "H"], ["bs", "B", "H", "K"], ["K", "x", "H"]]
# LaTeX names that are also RTF control words the reader interprets as formatting (not reported
# as in-text events): excluded where the command stays verbatim
READER_WORDS = {"b", "i", "ul", "strike", "super", "sub", "par", "pard", "page", "cell", "row", "u", "uc", "plain", "f", "fs", "cf", "cb",
                "ql", "qc", "qr", "qj", "qd", "sb", "sa", "sl", "li", "ri", "fi", "intbl", "trowd", "cellx", "hyphpar", "chcbpat", "chshdng",
                "header", "footer", "field", "pict", "fonttbl", "colortbl", "rtf", "ansi", "deff", "landscape", "nosupersub", "trgaph", "trleft",
                "slmult", "brdrs", "brdrw", "brdrcf", "clvmgf", "clvmrg", "info", "stylesheet", "generator", "fldrslt", "trql", "trqc", "trqr"}
COMPS = list(textconv.COMPONENT_DEFAULT)
PROBES = [["x", "^", "1", "sp", "bs", "A", "sp", ">", "=", "sp", "1"], ["bs", "M", "G", "_", "x"], ["x", "<", "=", "1", ".", "bs", "A", "B"],
          ["bs", "p", "sp", "x"], ["x", "sp", "x"], ["T", "sp", "F"]]


def _validate(ctx, work, recs, name):
    """TextTrace: returns {id: verdict}"""
    out = {}
    for k in range(0, len(recs), 4000):
        part = [{"id": r["id"], "inp": r["inp"], "conv": bool(r["conv"]), "k": r["k"], "obs": r["obs"]} for r in recs[k:k + 4000]]
        tf = work.path("%s-%d.json" % (name, k))
        write_json(tf, part)
        cfg = work.cfg("%s-%d.cfg" % (name, k), {"GeDelimiterSpace": False, "FieldTrailingSpace": False}, spec="TSpec")
        res = tlc.run("TextTrace", cfg, env={"TRACE_FILE": tf})
        ctx.add_tlc("validate:%s[%d:%d]" % (name, k, k + len(part)), res)
        for j in res.json_lines:
            out[j["id"]] = j
        # the same traces against the as-implemented scanner (known deviation): used for attribution and conformance
        if IMPL_GE_SPACE:
            cfg2 = work.cfg("%s-%d-impl.cfg" % (name, k), {"GeDelimiterSpace": True, "FieldTrailingSpace": True}, spec="TSpec")
            res2 = tlc.run("TextTrace", cfg2, env={"TRACE_FILE": tf})
            ctx.add_tlc("conformance:%s[%d:%d] (GeDelimiterSpace)" % (name, k, k + len(part)), res2)
            for j in res2.json_lines:
                out[j["id"]]["impl"] = j
    ctx.traces += len(recs)
    missing = [r["id"] for r in recs if r["id"] not in out]
    if missing:
        raise MachineryError("no verdict for %d text traces" % len(missing))
    return out


def _classify(ctx, recs, verdicts):
    nd = 0
    for r in recs:
        if r.get("error"):
            ctx.violation("conversion run failed: %s" % r["error"], {"scenario": {"inp": r["inp"], "conv": r["conv"], "kcmd": r.get("kcmd"), "comp": r.get("comp"), "override": r.get("override")}})
            continue
        v = verdicts[r["id"]]
        if v["badAt"] == 0:
            continue
        text = textconv.concretise(r["inp"], r.get("kcmd"))
        impl_ok = "impl" in v and v["impl"]["badAt"] == 0
        has_cmp = any(r["inp"][j] in (">", "<") and j + 1 < len(r["inp"]) and r["inp"][j + 1] == "=" for j in range(len(r["inp"])))
        fid = None
        if r["conv"] and impl_ok and has_cmp:
            fid = next((f for f in ctx.known if f.get("applies") == "ge_le_delimiter_space"), None)
        if r["conv"] and impl_ok and "F" in r["inp"]:
            f2 = next((f for f in ctx.known if f.get("applies") == "pagefield_trailing_space"), None)
            if f2 and not (has_cmp and fid):
                fid = f2
            elif f2:
                ctx.known_finding(f2["id"], f2["text"])
        glued = any(r["inp"][j] == "F" and j > 0 and r["inp"][j - 1] in ("x", "A", "B", "M", "K") for j in range(len(r["inp"])))
        if r["conv"] and impl_ok and glued:
            f3 = next((f for f in ctx.known if f.get("applies") == "command_glued_to_pagefield"), None)
            if f3:
                ctx.known_finding(f3["id"], f3["text"])
                fid = fid or f3
        if r["conv"] and r.get("kcmd") in ("\\|", "\\:", "\\sqrt[3]", "\\sqrt[4]"):
            fid = next((f for f in ctx.known if f.get("applies") == "unreachable_command"), None) or fid
        if fid:
            ctx.known_finding(fid["id"], fid["text"])
            continue
        if "impl" in v and v["impl"]["badAt"] != 0:
            nd += 1
        ctx.violation("documented conversion of %r (convert=%s%s) not observed: scanner action %s at symbol %d; reader saw %s"
                      % (text, r["conv"], ", component %s override %s" % (r["comp"], r["override"]) if r.get("comp") else "", v["why"], v["badAt"],
                         json.dumps(r["obs"])[:300]),
                      {"scenario": {"inp": r["inp"], "conv": r["conv"], "kcmd": r.get("kcmd"), "comp": r.get("comp"), "override": r.get("override")},
                       "text": text, "observed": r["obs"], "verdict": v})
    return nd


def run(pid, tier, seed, replay=None):
    ctx = Ctx(pid, tier, seed)
    work = family.Work()
    rng = random.Random(seed)
    plan = PLAN[tier]
    try:
        if replay:
            rp = json.load(open(replay))["scenario"]
            if rp.get("comp"):
                recs = [textconv.run_component({"id": 0, "inp": rp["inp"], "comp": rp["comp"], "override": rp["override"]})]
            else:
                recs = textconv.run_batch({"items": [{"id": 0, "inp": rp["inp"], "conv": rp["conv"], "kcmd": rp.get("kcmd")}]})
                recs[0]["kcmd"] = rp.get("kcmd")
            _classify(ctx, recs, _validate(ctx, work, recs, "replay"))
            ctx.note_case("a", True); ctx.note_case("b", True); ctx.sample({"replayed": rp}); ctx.rule = "replay"
            return ctx.finish()
        # MODEL: the documented scanner on every string up to maxlen (properties of the conversion itself)
        mc = dict(Alphabet=ALPHA, MaxLen=plan["maxlen"] if tier == "quick" else 3, Converts={True, False}, GeDelimiterSpace=False, FieldTrailingSpace=False)
        res = family.model_check(ctx, work, "TextConv", mc, ["OffIsIdentity", "OnlyDocumentedControls"], ["ScanProgress"], "documented scanner")
        if res.violated:
            raise MachineryError("TextConv model violates %s" % res.violated)
        # witnesses of the recorded findings (always replayed)
        witems = [{"id": -1 - i, "inp": f["witness_text"]["inp"], "conv": f["witness_text"]["conv"], "kcmd": f["witness_text"].get("kcmd")}
                  for i, f in enumerate(ctx.known) if f.get("witness_text")]
        if witems:
            wrecs = textconv.run_batch({"items": witems})
            for r, it in zip(wrecs, witems):
                r["kcmd"] = it["kcmd"]
            _classify(ctx, wrecs, _validate(ctx, work, wrecs, "witness"))
        # GENERATE A: all abstract strings up to maxlen, both modes; longer ones by simulation
        ga = dict(Alphabet=ALPHA, MaxLen=plan["maxlen"], Converts={True, False}, GeDelimiterSpace=IMPL_GE_SPACE, FieldTrailingSpace=IMPL_GE_SPACE)
        got = family.generate(ctx, work, "TextConv", ga, "strings")
        ctx.extra["exhaustive_strings"] = len(got)
        gs = dict(Alphabet=ALPHA, MaxLen=plan["sim_len"], Converts={True, False}, GeDelimiterSpace=IMPL_GE_SPACE, FieldTrailingSpace=IMPL_GE_SPACE)
        got += family.generate(ctx, work, "TextConv", gs, "longstrings", simulate_num=plan["sim_num"], depth=3 * plan["sim_len"] + 10, seed=seed)
        items = []
        seen = set()
        for g in got:
            key = (tuple(g["inp"]), g["conv"])
            if key in seen:
                continue
            seen.add(key)
            items.append({"id": len(items), "inp": g["inp"], "conv": g["conv"], "kcmd": None, "pred": g["exp"]})
        # GENERATE B: every command of the table in context templates
        cmds = sorted(textconv.LATEX)
        ctx.extra["commands"] = len(cmds)
        table = set(cmds)
        for cmd in cmds:
            k = textconv.kctx(cmd)
            for tpl in KTEMPLATES[:plan["ktemplates"]]:
                for conv in (True, False):
                    # keep the template only if the neighbouring pieces cannot form another table entry
                    ok = True
                    for j, s in enumerate(tpl):
                        if s != "K":
                            continue
                        run_ = ""
                        q = j + 1
                        while q < len(tpl) and tpl[q] in ("x", "A", "B", "M", "p"):
                            run_ += textconv.PIECES[tpl[q]]
                            q += 1
                        if not k["braced"]:
                            if run_ and (cmd + run_) in table:
                                ok = False
                            if q < len(tpl) and tpl[q] in ("G", "E", "H") and (cmd + run_ + textconv.PIECES[tpl[q]]) in table:
                                ok = False
                        if not cmd[1:2].isalpha():
                            ok = ok and not run_
                    if not conv and (k["name"] in READER_WORDS or not cmd[1:2].isalpha() or "[" in cmd or "\\" in cmd[1:]):
                        ok = False
                    if conv and k["name"] in READER_WORDS and any(s in ("x", "A", "B", "M", "p", "G") for s in tpl):
                        ok = False
                    if ok:
                        items.append({"id": len(items), "inp": tpl, "conv": conv, "kcmd": cmd, "pred": None})
        # GENERATE B': every command of the table in another letter case (capitalised, upper case, swapped) is an UNKNOWN
        # command and must stay verbatim with conversion on
        flips = 0
        for cmd in cmds:
            body = cmd[1:]
            if not body.replace("{", "").replace("}", "").isalpha() or not body[:1].isalpha():
                continue
            for alt in {"\\" + body.capitalize(), "\\" + body.upper(), "\\" + body.swapcase()}:
                name = alt[1:].split("{")[0]
                if alt in table or alt == cmd or name in table or ("\\" + name) in table or name in READER_WORDS or name.lower() in READER_WORDS:
                    continue
                for tpl in (["K"], ["x", "sp", "K", "1"]):
                    items.append({"id": len(items), "inp": tpl, "conv": True, "kcmd": alt, "pred": None})
                    flips += 1
        ctx.extra["case_variants_of_table_commands"] = flips
        batches = [{"items": items[k:k + 120]} for k in range(0, len(items), 120)]
        # GENERATE D: the same strings in a five-column frame whose grouping column is removed from the display, with
        # text_convert given as a column pattern narrower than the frame (per-cell control must follow the caller's columns)
        layouts = [dict(by="subline", gpos=0, pat=[1, 0]), dict(by="pageby", gpos=2, pat=[0, 1, 1]), dict(by="subline", gpos=1, pat=[1, 0, 0, 1]),
                   dict(by="pageby", gpos=0, pat=[0, 0, 1])]
        pool_d = [it for it in items if it["kcmd"] is None][:plan.get("grid_items", 480)]
        grid_items = []
        for li, lay in enumerate(layouts):
            part = pool_d[li::len(layouts)]
            for k0 in range(0, len(part), 120):
                chunk_items = [dict(it, id=len(items) + len(grid_items) + j) for j, it in enumerate(part[k0:k0 + 120])]
                grid_items += chunk_items
                batches.append({"items": chunk_items, "layout": lay})
        # GENERATE E: twins - the same text in two cells of one row, conversion on for one and off for the other
        pool_e = [it for it in items if it["kcmd"] is None][plan.get("grid_items", 480):plan.get("grid_items", 480) + plan.get("twin_items", 240)] or pool_d[:240]
        for ti, pat in enumerate(([1, 0], [0, 1])):
            part = pool_e[ti::2]
            for k0 in range(0, len(part), 60):
                chunk_items = []
                for it in part[k0:k0 + 60]:
                    for v in pat:
                        chunk_items.append(dict(it, conv=bool(v), id=len(items) + len(grid_items) + len(chunk_items), pred=None))
                grid_items += chunk_items
                batches.append({"items": chunk_items, "layout": {"twin": pat}})
        ctx.extra["grid_layout_cells"] = len(grid_items)
        out = pmap(textconv.run_batch, batches, chunk=2)
        recs = [r for b in out for r in b]
        by_id = {it["id"]: it for it in items + grid_items}
        for r in recs:
            r["kcmd"] = by_id[r["id"]]["kcmd"]
        # GENERATE C: every component kind with its default and overridden text_convert
        comp_items = []
        if plan["comps"]:
            for comp in COMPS:
                for ov in (None, True, False):
                    for pr in PROBES:
                        comp_items.append({"id": len(items) + len(grid_items) + len(comp_items), "inp": pr, "comp": comp, "override": ov})
            recs += pmap(textconv.run_component, comp_items, chunk=8)
        verdicts = _validate(ctx, work, recs, "text")
        nd = _classify(ctx, recs, verdicts)
        # conformance with the as-implemented scanner's prediction (Emit) for family A
        drift = 0
        for r in recs:
            it = by_id.get(r["id"])
            if it and it["pred"] is not None and not r.get("error") and it["pred"] != r["obs"]:
                drift += 1
                ctx.model_drift("C11 %r convert=%s: predicted %s observed %s" % (textconv.concretise(r["inp"]), r["conv"], json.dumps(it["pred"])[:200], json.dumps(r["obs"])[:200]))
        ctx.extra["conformance"] = {"compared_with_model_prediction": sum(1 for it in items if it["pred"] is not None), "drift": drift}
        for r in recs:
            ctx.note_case((tuple(r["inp"]), r["conv"], r.get("kcmd"), r.get("comp"), r.get("override")),
                          any(s in ("bs", "K", "^", "_", "nl", "T", "F") or s in (">", "<") for s in r["inp"]))
        ctx.extra["component_runs"] = len(comp_items)
        for r in recs[:2] + recs[-2:]:
            ctx.sample({"text": textconv.concretise(r["inp"], r.get("kcmd")), "convert": r["conv"], "reader_events": r["obs"][:12]})
        ctx.rule = ("abstract strings over the 18-symbol alphabet of spec/TextScan.tla: all of length <= %d in both modes (TLC, exhaustive), simulated ones up to "
                    "length %d; each of the 682 table commands in %d context templates; %d probe strings in every component kind with default/overridden "
                    "text_convert; per-cell text_convert in the batch documents; non-trivial = contains a conversion-triggering token"
                    % (plan["maxlen"], plan["sim_len"], plan["ktemplates"], len(PROBES)))
        ctx.assumptions = ["independent RTF reader; an unknown command kept verbatim is compared as the RTF control word a reader sees (its delimiter space and digit parameter absorbed)",
                           "code points of the 682 commands from the committed snapshot harness/latex682.json",
                           "LaTeX names that coincide with RTF formatting words are not exercised in verbatim position"]
        return ctx.finish()
    finally:
        work.close()
