"""C12: colour and font references resolve to what the user asked for."""
from __future__ import annotations

import json
import random

import colordocs
import family
from common import Ctx, MachineryError, pmap

# deviation flag of the tree under test: do the multi-section / figure paths set the colour context?
IMPL_SET_ON_ALL_PATHS = True
COMPS = ["title", "subline", "header", "footnote", "source", "pghdr", "pgftr"]
MODES = {"off", "plain", "text", "bg", "both", "border"}
BATTR = {"none", "text", "bg", "brd_left", "brd_top", "brd_right", "brd_bottom"}
PATHS = {"single", "multi2", "multi3", "figure"}
ALLIDX = set(range(1, 658))
GEN = {
    "quick": [dict(name="all657", consts=dict(PathSet={"single"}, ColourIdx=ALLIDX, KSet={1}, ModeSet={"off"}, BodyAttrSet={"text"}, ShapeSet={"scalar"}, FontSet={1}, HAutoSet={False}, UseColorSet={"default"}, ReEncSet={False}, LongSet={False})),
              dict(name="paths", consts=dict(PathSet=PATHS, ColourIdx={26, 552}, KSet={2}, ModeSet={"off", "both"}, BodyAttrSet={"none", "text"}, ShapeSet={"matrix"}, FontSet={1}, HAutoSet={False}, UseColorSet={"default"}, ReEncSet={False}, LongSet={False})),
              dict(name="borders", consts=dict(PathSet=PATHS, ColourIdx={26, 552}, KSet={2}, ModeSet={"off", "border"}, BodyAttrSet={"none", "brd_top"}, ShapeSet={"col"}, FontSet={1}, HAutoSet={False}, UseColorSet={"default"}, ReEncSet={False}, LongSet={False})),
              dict(name="options", consts=dict(PathSet={"single"}, ColourIdx={26, 552}, KSet={2}, ModeSet={"off", "both"}, BodyAttrSet={"text"}, ShapeSet={"scalar"}, FontSet={1}, HAutoSet={False, True}, UseColorSet={"default", "true", "false"}, ReEncSet={False, True}, LongSet={False, True})),
              dict(name="sim", consts=dict(PathSet=PATHS, ColourIdx=ALLIDX, KSet=set(range(1, 9)), ModeSet=MODES, BodyAttrSet=BATTR, ShapeSet={"scalar", "col", "matrix"}, FontSet=set(range(1, 11)), HAutoSet={False, True}, UseColorSet={"default", "true", "false"}, ReEncSet={False, True}, LongSet={False, True}), simulate=700)],
    "thorough": [dict(name="all657", consts=dict(PathSet={"single", "multi2"}, ColourIdx=ALLIDX, KSet={1}, ModeSet={"off"}, BodyAttrSet={"text", "bg", "brd_top"}, ShapeSet={"scalar"}, FontSet={1}, HAutoSet={False}, UseColorSet={"default"}, ReEncSet={False}, LongSet={False})),
                 dict(name="paths", consts=dict(PathSet=PATHS, ColourIdx={26, 552}, KSet={2}, ModeSet={"off", "both"}, BodyAttrSet={"none", "text"}, ShapeSet={"matrix"}, FontSet={1}, HAutoSet={False}, UseColorSet={"default"}, ReEncSet={False}, LongSet={False})),
              dict(name="borders", consts=dict(PathSet=PATHS, ColourIdx={26, 552}, KSet={2}, ModeSet={"off", "border"}, BodyAttrSet={"none", "brd_top"}, ShapeSet={"col"}, FontSet={1}, HAutoSet={False}, UseColorSet={"default"}, ReEncSet={False}, LongSet={False})),
              dict(name="options", consts=dict(PathSet={"single"}, ColourIdx={26, 552}, KSet={2}, ModeSet={"off", "both"}, BodyAttrSet={"text"}, ShapeSet={"scalar"}, FontSet={1}, HAutoSet={False, True}, UseColorSet={"default", "true", "false"}, ReEncSet={False, True}, LongSet={False, True})),
                 dict(name="sim", consts=dict(PathSet=PATHS, ColourIdx=ALLIDX, KSet=set(range(1, 9)), ModeSet=MODES, BodyAttrSet=BATTR, ShapeSet={"scalar", "col", "matrix"}, FontSet=set(range(1, 11)), HAutoSet={False, True}, UseColorSet={"default", "true", "false"}, ReEncSet={False, True}, LongSet={False, True}), simulate=12000)],
}
JUDGE = ["C12_Resolve", "C12_Font", "C12_Complete"]


def pal_at(c, i):
    return colordocs.BY_INDEX[c["pal"][i % c["kk"]]]


def nsec(c):
    return {"multi2": 2, "multi3": 3, "figure": 0}.get(c["path"], 1)


def spec_from_cfg(c):
    comp = {}
    for j, name in enumerate(COMPS, 1):
        mode = c["modes"][j - 1]
        if mode == "off" or (c["path"] == "figure" and name == "header"):
            continue
        t = pal_at(c, j - 1) if mode in ("text", "both") else ""
        b = pal_at(c, j) if mode in ("bg", "both") else ""
        f = c["font"] if c["fcomp"] == j else 0
        brd = pal_at(c, j + 1) if (mode == "border" and name in ("header", "footnote", "source") and c["path"] != "figure") else ""
        comp[name] = [t, b, f, brd]
    sections = []
    for s in range(1, nsec(c) + 1):
        sec = dict(n=34 if c.get("long") else 2, m=2)
        if c["battr"] != "none":
            def colour(r, col):
                if c["shape"] == "scalar":
                    return pal_at(c, s)
                if c["shape"] == "col":
                    return pal_at(c, col + s)
                return pal_at(c, r + col + s)
            if c["shape"] == "scalar":
                mat = colour(1, 1)
            elif c["shape"] == "col":
                mat = [[colour(1, 1), colour(1, 2)]]
            else:
                mat = [[colour(1, 1), colour(1, 2)], [colour(2, 1), colour(2, 2)]]
            if c["battr"] == "text":
                sec["text"] = mat
            elif c["battr"] == "bg":
                sec["bg"] = mat
            else:
                sec["brd"] = {c["battr"][4:]: mat}
        sections.append(sec)
    path = "figure" if c["path"] == "figure" else ("single" if c["path"] == "single" else "multi")
    extra = {"nrow": 3} if c.get("long") else {}
    return dict(path=path, sections=sections, comp=comp, header_auto=bool(c.get("hauto")), use_color=c.get("usecolor", "default"), **extra)


def run_one(sc):
    c = sc["c"]
    spec = spec_from_cfg(c)
    rec = {"id": sc["id"], "cfg": c, "ev": [], "outcome": "ok"}
    try:
        import tempfile, shutil
        tmp = tempfile.mkdtemp(prefix="rtflite-verif-c12-") if spec["path"] == "figure" else None
        if tmp:
            spec["tmpdir"] = tmp
        try:
            if c.get("reenc") and spec["path"] != "figure":
                # the same document object, first with the palette rotated by one position ...
                c0 = dict(c); c0["pal"] = c["pal"][1:] + c["pal"][:1]
                spec0 = spec_from_cfg(c0)
                doc = colordocs.build_color_doc(spec0)
                doc.rtf_encode()
                # ... then every component replaced by the one of the scenario, and encoded again
                fresh = colordocs.build_color_doc(spec)
                for name in ("rtf_title", "rtf_subline", "rtf_column_header", "rtf_footnote", "rtf_source", "rtf_page_header", "rtf_page_footer", "rtf_body"):
                    setattr(doc, name, getattr(fresh, name))
            else:
                doc = colordocs.build_color_doc(spec)
            text = doc.rtf_encode()
        finally:
            if tmp:
                shutil.rmtree(tmp, ignore_errors=True)
    except Exception as ex:
        rec["outcome"] = "error:" + type(ex).__name__ + ":" + str(ex)[:200]
        return rec
    info, ev = colordocs.observe_colors(text, spec)
    need = [n for n in spec["comp"]]
    need += ["body%d.%d.%d" % (s, r, j) for s in range(1, len(spec["sections"]) + 1) for r in (1, 2) for j in (1, 2)]
    rec["c"] = {"tbl": info["tbl"], "fonts": info["fonts"], "ncolortbl": info["ncolortbl"], "need": need}
    rec["ev"] = [{"kind": e["kind"], "role": e["role"], "idx": e["idx"], "want": e["want"], "num": e.get("num", 0)} for e in ev]
    # conformance with the model's prediction (indices and table)
    if sc.get("pred"):
        obs = {}
        for e in ev:
            obs[(e["role"], e["kind"])] = e["idx"]
        for u, idx in zip(sc["pred"]["uses"], sc["pred"]["out"]):
            if u[0] == "body":
                kind = {"text": "cf", "bg": "cb"}.get(u[1], "brdr")
                role = "body%d.%d.%d" % (u[3], u[4], u[5]) + ("." + u[1][4:] if kind == "brdr" else "")
            elif u[1] == "brdr_top":
                kind, role = "brdr", u[0] + ".top"
            else:
                kind, role = u[1], u[0]
            if obs.get((role, kind)) != idx:
                rec["drift"] = {"role": role, "kind": kind, "pred": idx, "obs": obs.get((role, kind))}
                break
        want_tbl = [colordocs.COLORS[colordocs.BY_INDEX[i]][1] for i in sc["pred"]["tbl"]]
        if "drift" not in rec and want_tbl != info["tbl"]:
            rec["drift"] = {"table": "differs", "pred": want_tbl[:4], "obs": info["tbl"][:4]}
    return rec


def _judge(ctx, work, recs):
    ok = [{"id": r["id"], "c": r["c"], "ev": r["ev"]} for r in recs if r["outcome"] == "ok"]
    verdicts = family.validate(ctx, work, "ColorTrace", ok, JUDGE, name="color")
    for r in recs:
        if r["outcome"] != "ok":
            ctx.violation("encode failed on a scenario of the property's quantifier: %s" % r["outcome"], {"scenario": {"c": r["cfg"]}})
            continue
        by = {}
        for b in verdicts.get(r["id"], []):
            by.setdefault(b["cl"], []).append(b["at"])
        for cl, ats in by.items():
            at = min(ats)
            e = r["ev"][at - 1] if at <= len(r["ev"]) else None
            ctx.violation("%s fails (%s path) at %s; colour table has %d entries" % (cl, r["cfg"]["path"], json.dumps(e), len(r["c"]["tbl"])),
                          {"clause": cl, "at": at, "scenario": {"c": r["cfg"]}, "table": r["c"]["tbl"][:12], "refs": r["ev"][:40]})


def run(pid, tier, seed, replay=None):
    ctx = Ctx(pid, tier, seed)
    work = family.Work()
    try:
        if replay:
            rp = json.load(open(replay))
            rec = run_one({"id": 0, "c": rp["scenario"]["c"]})
            _judge(ctx, work, [rec])
            ctx.note_case("a", True); ctx.note_case("b", True); ctx.sample({"replayed": replay}); ctx.rule = "replay"
            return ctx.finish()
        # MODEL: ColorCtx, one encode per pool document
        flags_int = dict(Shared=True, SetOnAllPaths=True, ClearOnError=True, CopyOnConstruct=True)
        cfg = work.cfg("cc_int.cfg", {"Threads": {"A"}, **flags_int}, invariants=["TypeOK", "Resolves", "Isolation", "CtxReleased"])
        with open(cfg, "a") as f:
            f.write("CONSTANT Progs <- Progs1\n")
        import tlc
        res = tlc.run("ColorCtxMC", cfg)
        ctx.add_tlc("model:ColorCtx intended", res)
        if res.violated:
            raise MachineryError("intended ColorCtx model violates %s" % res.violated)
        if not IMPL_SET_ON_ALL_PATHS:
            cfg = work.cfg("cc_impl.cfg", {"Threads": {"A"}, "Shared": True, "SetOnAllPaths": False, "ClearOnError": False, "CopyOnConstruct": False},
                           invariants=["Resolves"])
            with open(cfg, "a") as f:
                f.write("CONSTANT Progs <- Progs1\n")
            res = tlc.run("ColorCtxMC", cfg)
            ctx.add_tlc("model:ColorCtx as-implemented", res)
            ctx.extra["as_implemented_model_violates"] = res.violated
        scs = []
        for gi, g in enumerate(GEN[tier]):
            consts = dict(g["consts"]); consts["SetOnAllPaths"] = IMPL_SET_ON_ALL_PATHS
            if g.get("simulate"):
                got = family.generate(ctx, work, "ColorDoc", consts, g["name"], simulate_num=g["simulate"], depth=80, seed=seed + gi)
            else:
                got = family.generate(ctx, work, "ColorDoc", consts, g["name"])
                ctx.extra.setdefault("exhaustive_families_replayed_whole", {})[g["name"]] = len(got)
            seen = set()
            for s in got:
                key = json.dumps(s["cfg"], sort_keys=True)
                if key not in seen:
                    seen.add(key)
                    scs.append({"c": s["cfg"], "pred": {"uses": s["uses"], "out": s["out"], "tbl": s["tbl"]}})
        for i, s in enumerate(scs):
            s["id"] = i
        recs = pmap(run_one, scs, chunk=8)
        _judge(ctx, work, recs)
        nd = 0
        paths = set()
        colours = set()
        for r in recs:
            c = r["cfg"]
            paths.add(c["path"])
            colours.update(c["pal"])
            ctx.note_case(json.dumps(c, sort_keys=True), len(c["pal"]) >= 1)
            if "drift" in r:
                nd += 1
                ctx.model_drift("C12 %s: %s" % (json.dumps(c, sort_keys=True), r["drift"]))
        ctx.extra["conformance"] = {"compared_with_model_prediction": len(recs), "drift": nd}
        ctx.extra["paths_covered"] = sorted(paths)
        ctx.extra["distinct_colours_used"] = len(colours)
        if len(colours) < 657 or paths != PATHS:
            raise MachineryError("vacuity guard: %d colours, paths %s" % (len(colours), paths))
        for r in recs[:2] + recs[-2:]:
            ctx.sample({"cfg": r["cfg"], "table": r.get("c", {}).get("tbl", [])[:6], "refs": r["ev"][:6]})
        ctx.rule = ("documents generated by TLC from spec/ColorDoc.tla: each of the 657 named colours on a body cell (exhaustive), "
                    "all paths x component modes on a 3-colour palette (exhaustive), random palettes of 1..8 colours on random components "
                    "as text/background/border colour and the 10 fonts (-simulate); non-trivial = at least one colour")
        ctx.assumptions = ["independent RTF reader", "RGB values of the 657 named colours from the committed snapshot harness/colors657.json"]
        return ctx.finish()
    finally:
        work.close()
