"""C16: figures are embedded byte-exactly, one per page, at the configured size."""
from __future__ import annotations

import json
import random

import family
import figure16
from common import Ctx, MachineryError, pmap

IMPL_RESTATE_GEOMETRY = True      # deviation flag: page breaks between figures restate paper geometry
IMPL_SUBLINE_FOLLOWS_TITLE = True    # deviation flag: the subline of a figure document is shown on the pages page_title selects
JUDGE = ["C16_OnePerPage", "C16_Kind", "C16_Pixels", "C16_Goal", "C16_Bytes", "C16_Captions"]
B = {False, True}
PL3 = {"first", "last", "all"}
GEN = {"quick": [dict(name="small", consts=dict(NSet={1, 3}, LenSet={1, 2, 4}, PlaceSet=PL3, BoolSet=B, KindSet={"png"}, ReuseSet={False}, SameSet={"none"})),
                 dict(name="sim", consts=dict(NSet={1, 2, 3, 4, 5, 6}, LenSet={1, 2, 3, 4, 5, 6, 7}, PlaceSet=PL3, BoolSet=B, KindSet={"png", "jpeg", "emf"}, ReuseSet={False, True}, SameSet={"none", "dupfirst"}), simulate=600)],
       "thorough": [dict(name="small", consts=dict(NSet={1, 2, 3, 4}, LenSet={1, 2, 3, 4, 5}, PlaceSet=PL3, BoolSet=B, KindSet={"png"}, ReuseSet={False}, SameSet={"none"})),
                    dict(name="sim", consts=dict(NSet={1, 2, 3, 4, 5, 6}, LenSet={1, 2, 3, 4, 5, 6, 7}, PlaceSet=PL3, BoolSet=B, KindSet={"png", "jpeg", "emf"}, ReuseSet={False, True}, SameSet={"none", "dupfirst"}), simulate=10000)]}
SIZES = {"quick": [0, 1, 15, 39, 40, 41, 80, 81, 300, 5000], "thorough": [0, 1, 15, 39, 40, 41, 80, 81, 300, 5000, 60000, 200000]}
MODEL = dict(NSet={1, 2, 3}, LenSet={1, 2, 4}, PlaceSet=PL3, BoolSet=B, KindSet={"png", "emf"}, ReuseSet={False}, SameSet={"none", "dupfirst"})
MINV = ["M_OnePerPage", "M_Kind", "M_Pixels", "M_Goal", "M_Bytes", "M_Captions"]


def _judge(ctx, work, recs, judge):
    ok = [{"id": r["id"], "c": r["c"], "ev": r["ev"]} for r in recs if r["outcome"] == "ok"]
    verdicts = family.validate(ctx, work, "FigTrace", ok, judge, name="fig")
    for r in recs:
        if r["outcome"] != "ok":
            ctx.violation("encode failed on a figure document of the property's quantifier: %s" % r["outcome"], {"scenario": {"c": r["cfg"], "seed": r.get("seed")}})
            continue
        by = {}
        for b in verdicts.get(r["id"], []):
            by.setdefault(b["cl"], []).append(b["at"])
        for cl, ats in by.items():
            at = min(ats)
            e = r["ev"][at - 1] if at <= len(r["ev"]) else None
            ee = {k: v for k, v in (e or {}).items() if k != "bytes"}
            ctx.violation("%s fails at block %d: %s; expected widths %s heights %s" % (cl, at, json.dumps(ee), r["c"]["fw"], r["c"]["fh"]),
                          {"clause": cl, "at": at, "scenario": {"c": r["cfg"], "seed": r["seed"], "sizes": r["sizes"]},
                           "events": [{k: v for k, v in x.items() if k != "bytes"} for x in r["ev"]][:20]})


def scenarios(ctx, work, tier, seed):
    items = []
    seen = set()
    for gi, g in enumerate(GEN[tier]):
        consts = dict(g["consts"]); consts["RestateGeometry"] = IMPL_RESTATE_GEOMETRY; consts["SublineFollowsTitle"] = IMPL_SUBLINE_FOLLOWS_TITLE
        if g.get("simulate"):
            got = family.generate(ctx, work, "Figure", consts, g["name"], simulate_num=g["simulate"], depth=120, seed=seed + gi)
        else:
            got = family.generate(ctx, work, "Figure", consts, g["name"])
            ctx.extra.setdefault("exhaustive_figure_families", {})[g["name"]] = len(got)
        for s in got:
            key = json.dumps(s["cfg"], sort_keys=True)
            if key in seen:
                continue
            seen.add(key)
            items.append({"id": len(items), "c": s["cfg"], "pred": s["out"], "seed": seed * 100003 + len(items), "sizes": SIZES[tier]})
    return items


def run(pid, tier, seed, replay=None):
    ctx = Ctx(pid, tier, seed)
    work = family.Work()
    try:
        if replay:
            sc = json.load(open(replay))["scenario"]
            rec = figure16.run_one({"id": 0, "c": sc["c"], "seed": sc["seed"], "sizes": sc.get("sizes") or SIZES["quick"]})
            rec["seed"], rec["sizes"] = sc["seed"], sc.get("sizes")
            _judge(ctx, work, [rec], JUDGE)
            ctx.note_case("a", True); ctx.note_case("b", True); ctx.sample({"replayed": replay}); ctx.rule = "replay"
            return ctx.finish()
        mc = dict(MODEL); mc["RestateGeometry"] = True; mc["SublineFollowsTitle"] = True
        res = family.model_check(ctx, work, "Figure", mc, MINV + ["M_FigBreak", "M_FigSubline"], [], "intended")
        if res.violated:
            raise MachineryError("intended Figure model violates %s\n%s" % (res.violated, res.counterexample[:1200]))
        items = scenarios(ctx, work, tier, seed)
        recs = pmap(figure16.run_one, items, chunk=8)
        for it, r in zip(items, recs):
            r["seed"], r["sizes"] = it["seed"], it["sizes"]
        _judge(ctx, work, recs, JUDGE)
        nd = 0
        kinds = set()
        for it, r in zip(items, recs):
            ctx.note_case(json.dumps(it["c"], sort_keys=True), it["c"]["n"] >= 2)
            kinds.update(it["c"]["kinds"])
            if "drift" in r:
                nd += 1
                ctx.model_drift("C16 %s: %s" % (json.dumps(it["c"], sort_keys=True), r["drift"]))
        ctx.extra["conformance"] = {"compared_with_model_prediction": len(recs), "drift": nd}
        ctx.extra["kinds_covered"] = sorted(kinds)
        ctx.extra["payload_sizes"] = SIZES[tier]
        ctx.extra["payloads_compared_in_tlc_bytewise"] = sum(1 for r in recs if r["outcome"] == "ok" for f in r["c"]["files"] if f["bytes"])
        ctx.extra["payloads_compared_by_length_and_sha1"] = sum(1 for r in recs if r["outcome"] == "ok" for f in r["c"]["files"] if not f["bytes"])
        if kinds != {"png", "jpeg", "emf"}:
            raise MachineryError("vacuity guard: kinds %s" % kinds)
        for r in recs[:2] + recs[-2:]:
            ctx.sample({"cfg": r["cfg"], "events": [{k: v for k, v in e.items() if k not in ("bytes", "dsha")} for e in r["ev"]][:8]})
        ctx.rule = ("figure documents generated by TLC from spec/Figure.tla (number of figures x width/height list lengths x caption presence and placement, exhaustive for small "
                    "sets, simulated up to 6 figures / list length 7 with PNG, JPEG and EMF); image files of random bytes with valid headers of random dimensions and payload "
                    "sizes around the 40-byte hex line boundary; non-trivial = two or more figures")
        ctx.assumptions = ["payloads <= 512 bytes are compared byte by byte in TLC, larger ones by length and SHA-1 computed by the harness",
                           "display sizes are multiples of 0.05 in so that inches x 1440 is an exact integer"]
        return ctx.finish()
    finally:
        work.close()
