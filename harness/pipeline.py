"""Driver of the rendering-pipeline family (C02..C09): concretise a TLC scenario, run the real
rtf_encode(), read the result back with the independent reader, produce the trace record."""
from __future__ import annotations

import math
import os
import re
import tempfile
import json

from common import setup_path

setup_path()

GEOM_KEYS = ("paperw", "paperh", "margl", "margr", "margt", "margb", "headery", "footery")
PRIMS = ("strat", "n", "h", "nlev", "chg", "schg", "div", "newpage", "pbrow", "pbhdr", "nrow", "hdr",
         "foot", "src", "ptitle", "pfoot", "psrc", "title", "subline",
         "font", "size", "paper", "pghf", "pagefirst", "pagelast", "bodyfirst", "bodylast", "utop", "ubot",
         "ndata", "gpos", "relwk", "hdrw", "ushape", "dup", "hdrtuple")

PAPERS = {
    "letter": {},
    "landscape": {"orientation": "landscape"},
    "a4": {"paper": (8.27, 11.69)},
    "a4land": {"orientation": "landscape", "paper": (11.69, 8.27)},
    # landscape flag with the paper given short edge first (width < height), as for A4 written 8.27 x 11.69
    "a4landp": {"orientation": "landscape", "paper": (8.27, 11.69)},
    "custom": {"paper": (7.3, 9.45), "margin": [0.9, 0.8, 1.1, 0.7, 0.6, 0.55], "col_width": 5.1},
    # the table is wider than the text area (col_width above paper width minus side margins)
    "widecol": {"col_width": 7.5},
    # letter paper with margins of its own (same size and orientation as "letter")
    "letterm": {"margin": [1.0, 1.3, 1.6, 1.1, 1.45, 0.95]},
}
PRIM_DEFAULTS = {"font": 1, "size": 9, "paper": "letter", "pghf": 0, "pagefirst": "double", "pagelast": "double",
                 "bodyfirst": "single", "bodylast": "single", "utop": "", "ubot": "",
                 "ndata": 2, "gpos": "first", "relwk": "equal", "hdrw": False, "ushape": "scalar", "dup": False, "hdrtuple": False}

RELW = {"equal": lambda j: 1.0, "asc": lambda j: 1.0 + 0.5 * j, "mixed": lambda j: [0.2, 10.0, 1.3, 2.7, 0.9, 4.4][j % 6],
        "tenths": lambda j: [1.7, 0.3, 2.9, 5.1, 0.7, 3.3][j % 6]}
# "...disp": the same widths, but col_rel_width is written for the DISPLAYED columns only (one entry per column that is left
# after page_by / subline_by removed theirs), the form RTFBody's documentation shows
RELW["ascdisp"] = RELW["asc"]
RELW["mixeddisp"] = RELW["mixed"]


def opts_from_cfg(c, over=None):
    o = dict(DEFAULT_OPTS)
    for k in ("font", "size", "pagefirst", "pagelast", "bodyfirst", "bodylast", "utop", "ubot"):
        o[k] = c.get(k, PRIM_DEFAULTS[k])
    o.update(PAPERS[c.get("paper", "letter")])
    hf = c.get("pghf", 0)
    o["pghdr"] = bool(hf & 1)
    o["pgftr"] = bool(hf & 2)
    # bits 4 / 8: the page header / footer has two lines with per-line paragraph settings (still ONE definition each)
    o["pghdr2"] = bool(hf & 4)
    o["pgftr2"] = bool(hf & 8)
    o["ndata"] = c.get("ndata", 2)
    o["gpos"] = c.get("gpos", "first")
    o["relwk"] = c.get("relwk", "equal")
    o["hdr_own_widths"] = bool(c.get("hdrw", False))
    o["ushape"] = c.get("ushape", "scalar")
    o["dup"] = bool(c.get("dup", False))
    o.update(over or {})
    return o

DEFAULT_OPTS = {
    "ndata": 2,                 # number of plain data columns
    "order": None,              # column order (list of names) or None = group columns first
    "relw": None,               # relative widths per ORIGINAL column (floats) or None
    "orientation": "portrait",
    "paper": None,              # (width, height) inches
    "margin": None,
    "col_width": None,
    "font": 1, "size": 9,       # body font / size (scalar)
    "pagefirst": "double", "pagelast": "double", "bodyfirst": "single", "bodylast": "single",
    "utop": "", "ubot": "", "uleft": "single", "uright": "single", "ushape": "scalar",
    "pghdr": False, "pgftr": False,
    "hdr_own_widths": False, "gpos": "first", "relwk": "equal",
    "texts": None,              # explicit cell values [[...]] for the data columns (C02)
    "kinds": None,              # per data column: "str" | "int" | "float"
    "convert": True,
    "prefixes": False,          # also run every proper prefix (C04 PrefixStable)
    "last_row": None,           # RTFBody(last_row=...) when not None (a documented option; placement must not depend on it)
    "tcv": False,               # text_convert is a per-ROW matrix (row 1 on, the others off) and the wrapping texts are full of '_' (printed verbatim)
    "numh": None,               # "int" | "float": row heights produced by a NUMERIC column (narrow, wrapping digits) instead of a text cell
    "gby": 0,                   # > 0: the second data column is a group_by column whose label needs that many lines
    "repage": False,            # the document was constructed on ANOTHER page object (other table width); the scenario's page is assigned afterwards
    "sibling": None,            # "nrow" | "paper" | "font" | "rows": a sibling document (same scenario, that one setting changed) was encoded just before
    "shadow": False,            # the same frame was encoded with the opposite text_convert setting just before
}

_fill_cache = {}


def _width_in(text, font, size):
    from rtflite import get_string_width
    return get_string_width(text, font=font, font_size=size, unit="in")


def filler(tag: str, h: int, colw: float, font=1, size=9, unit="x") -> str:
    """Text starting with `tag` whose width is in the middle of the h-line band of a column of
    width colw (so the height is unambiguous: well inside the band for estimator and reader)."""
    if h <= 1:
        return tag
    key = (len(tag), h, round(colw, 6), font, size, unit)
    k = _fill_cache.get(key)
    if k is None:
        target = (h - 0.5) * colw
        lo, hi = 0, 4000
        while lo < hi:
            mid = (lo + hi) // 2
            if _width_in(tag + " " + unit * mid, font, size) < target:
                lo = mid + 1
            else:
                hi = mid
        k = lo
        _fill_cache[key] = k
    s = tag + " " + unit * k
    w = _width_in(s, font, size) / colw
    assert h - 1 + 0.2 < w < h - 0.2, (w, h)
    return s


# ---- group key texts (must agree with PipeCfg.tla: PbText / SubText) ----

def val_idx(c, v, r):
    chg = c["chg"]
    s = 1
    for j in range(1, r + 1):
        if 1 <= chg[j - 1] < v:
            s = j
    return 1 + sum(1 for j in range(s + 1, r + 1) if chg[j - 1] == v)


def pb_text(c, v, r):
    i = val_idx(c, v, r)
    div = c["div"]
    if div is True:
        div = "second"
    if div == "second" and v == c["nlev"] and i == 2:
        return "-----"
    if div == "nullkey" and v == c["nlev"] and i == 2:
        return None
    if div == "padkey" and v == c["nlev"]:
        return "  ~P%d.%d~ " % (v, i)
    if div == "resume" and v == c["nlev"]:
        return "-----" if i == 2 else "~P%d.%d~" % (v, i - 2 if i >= 3 else 1)
    if div == "cycle":
        return "~P%d.%d~" % (v, (i - 1) % 2 + 1)
    if div == "outer" and v < c["nlev"] and i == 2:
        return "-----"
    if div == "first" and v == c["nlev"] and c["nlev"] >= 2 and val_idx(c, v - 1, r) >= 2:
        return "-----" if i == 1 else "~P%d.%d~" % (v, i - 1)
    return "~P%d.%d~" % (v, i)


def sub_text(c, r):
    i = sum(1 for j in range(1, r + 1) if c["schg"][j - 1])
    if c["div"] == "collide":
        k = sum(1 for x in c["schg"] if x) + 1
        return "~S" + "1" * i + ", " + "1" * (k - i) + "~"
    return "~S%d~" % ((i - 1) % 2 + 1 if c["div"] == "cycle" else i)


def has_pb(c):
    return c["strat"] in ("pageby", "subpb")


def has_sub(c):
    return c["strat"] in ("subline", "subpb")


def spanning(c):
    return has_pb(c) and (not c["newpage"] or c["pbrow"] != "column")


# ---- build the document ----

def build(c, o, nrows=None):
    """Return (RTFDocument, info) for the first `nrows` rows of scenario c."""
    import polars as pl
    import rtflite as rtf

    n = c["n"] if nrows is None else nrows
    pbcols = ["~PB%d~" % v for v in range(1, c["nlev"] + 1)] if has_pb(c) else []
    subcols = (["~SB~", "~SB2~"] if c["div"] == "collide" else ["~SB~"]) if has_sub(c) else []
    dcols = ["~D%d~" % k for k in range(1, o["ndata"] + 1)]
    gcols = pbcols + subcols
    gpos = o.get("gpos", "first")
    if gpos == "rev":
        # the frame stores the group columns in the reverse of the page_by order
        gcols = list(reversed(gcols))
    if o["order"]:
        cols = o["order"]
    elif gpos == "last":
        cols = dcols + gcols
    elif gpos == "split":
        # group columns interleaved with data columns (removed columns are not adjacent)
        cols = []
        g, dd = list(gcols), list(dcols)
        while g or dd:
            if g:
                cols.append(g.pop(0))
            if dd:
                cols.append(dd.pop(0))
    elif gpos == "middle":
        h2 = max(1, len(dcols) // 2)
        cols = dcols[:h2] + gcols + dcols[h2:]
    else:
        cols = gcols + dcols
    removed = set(subcols) | (set(pbcols) if spanning(c) else set())
    kept = [x for x in cols if x not in removed]
    relw_all = o["relw"] or [RELW[o.get("relwk", "equal")](j) for j in range(len(cols))]
    dup = bool(o.get("dup")) and len(dcols) >= 2 and o["texts"] is None and not o["relw"]
    if dup:
        relw_all = [4.0 if x == dcols[1] else 1.0 for x in cols]
    special = len(dcols) >= 2 and o["texts"] is None and not o["relw"] and not dup
    numh = o.get("numh") if special else None
    gby = int(o.get("gby") or 0) if special and not numh else 0
    relw_kept = [w for x, w in zip(cols, relw_all) if x not in removed]
    page_kw = dict(nrow=c["nrow"], orientation=o["orientation"], page_title=c["ptitle"],
                   page_footnote=c["pfoot"], page_source=c["psrc"],
                   border_first=o["pagefirst"], border_last=o["pagelast"])
    if o["paper"]:
        page_kw["width"], page_kw["height"] = o["paper"]
    if o["margin"]:
        page_kw["margin"] = list(o["margin"])
    if o["col_width"]:
        page_kw["col_width"] = o["col_width"]
    page = rtf.RTFPage(**page_kw)
    colw_total = page.col_width
    if numh and colw_total > 1.0:
        # the numeric column is 0.2 in wide (about three digits per line at 9 pt), the others share the rest equally
        others = len(kept) - 1
        relw_all = [1.0 if x != dcols[1] else 0.2 * others / (colw_total - 0.2) for x in cols]
        relw_kept = [w for x, w in zip(cols, relw_all) if x not in removed]
    colw = {x: w * colw_total / sum(relw_kept) for x, w in zip(kept, relw_kept)}

    def numeric_text(h, r):
        # digits whose width at 9 pt falls inside the h-line band of the numeric column (closest fit if none does)
        best = None
        for dg in range(1, 19):
            t = ("0." + "1" * (dg - 1)) if numh == "float" and dg >= 3 else str(r % 9 + 1) * dg
            if numh == "float" and dg < 3:
                t = str(r % 9 + 1) + ".5"
            ln = _width_in(t, 1, 9) / colw[dcols[1]]
            if h - 1 + 0.2 < ln < h - 0.2:
                return t
            if best is None or abs(ln - (h - 0.5)) < best[0]:
                best = (abs(ln - (h - 0.5)), t)
        return best[1]

    data = {x: [] for x in cols}
    for r in range(1, n + 1):
        for v, x in enumerate(pbcols, 1):
            data[x].append(pb_text(c, v, r))
        for si, x in enumerate(subcols):
            st = sub_text(c, r)
            data[x].append(st.split(", ")[si] if len(subcols) == 2 else st)
        for k, x in enumerate(dcols):
            if o["texts"] is not None:
                data[x].append(o["texts"][r - 1][k])
            elif k == 0 and numh:
                data[x].append("d%03d" % r)
            elif k == 1 and numh:
                t = numeric_text(c["h"][r - 1], r)
                data[x].append(int(t) if numh == "int" else float(t))
            elif k == 1 and gby:
                # group_by column: runs of three rows share one label that needs `gby` lines in its column
                data[x].append(filler("g%02d" % ((r - 1) // 3), gby, colw[x], 1, 9))
            elif k == 0 and o.get("tcv") and o["texts"] is None:
                data[x].append(filler("d%03d" % r, c["h"][r - 1], colw[x], 1, 9, unit="x_"))
            elif k == 0:
                # heights are those of the implementation's estimator (font 1, 9pt)
                data[x].append(filler("d%03d" % r, c["h"][r - 1], colw[x], 1, 9))
            elif k == 1 and dup and n > 1 and c["h"][r % n] <= 3:
                # the first column's text of the next row (cyclically); this column is four times as wide: one line
                data[x].append(filler("d%03d" % (r % n + 1), c["h"][r % n], colw[dcols[0]], 1, 9))
            else:
                t = "v%d.%d" % (r, k)
                data[x].append(t if _width_in(t, 1, 9) < 0.8 * colw[x] else "")
    schema = {x: pl.Utf8 for x in cols}
    if numh:
        schema[dcols[1]] = pl.Int64 if numh == "int" else pl.Float64
    if o["texts"] is not None and o.get("kinds"):
        import datetime as _dt
        for k, x in enumerate(dcols):
            kind = o["kinds"][k]
            schema[x] = {"int": pl.Int64, "float": pl.Float64, "f32": pl.Float32, "bool": pl.Boolean, "date": pl.Date,
                         "datetime": pl.Datetime}.get(kind, pl.Utf8)
            if kind == "date":
                data[x] = [None if v is None else _dt.date.fromisoformat(v) for v in data[x]]
            elif kind == "datetime":
                data[x] = [None if v is None else _dt.datetime.fromisoformat(v) for v in data[x]]
    df = pl.DataFrame({x: data[x] for x in cols}, schema=schema)
    if o["texts"] is not None and o.get("kinds"):
        # the values as the frame holds them (a Float32 column does not hold the literal that was written)
        for x in dcols:
            data[x] = df[x].to_list()

    body_kw = dict(border_first=o["bodyfirst"], border_last=o["bodylast"],
                   border_left=o["uleft"], border_right=o["uright"],
                   pageby_header=c["pbhdr"], text_convert=o["convert"])
    # user borders on the cells: scalar, per column, or per cell (original rows x original columns)
    def umatrix(style):
        if o.get("ushape", "scalar") == "col":
            return [[style if j % 2 == 0 else "" for j in range(len(cols))]]
        if o.get("ushape") == "matrix" and n > 0:
            return [[style if (r + j) % 2 == 0 else "" for j in range(len(cols))] for r in range(n)]
        if o.get("ushape") == "rowpat":
            return (style, "", "")          # a tuple: one entry per ROW, recycled down the table
        return style
    if o["utop"]:
        body_kw["border_top"] = umatrix(o["utop"])
    if o["ubot"]:
        body_kw["border_bottom"] = umatrix(o["ubot"])
    if o.get("last_row") is not None:
        body_kw["last_row"] = bool(o["last_row"])
    if gby:
        body_kw["group_by"] = [dcols[1]]
    if o.get("tcv") and o["texts"] is None and n >= 1:
        body_kw["text_convert"] = [[True]] + [[False]] * (n - 1)
    if o["relw"] or o.get("relwk", "equal") != "equal" or dup or numh:
        body_kw["col_rel_width"] = list(relw_kept) if str(o.get("relwk", "")).endswith("disp") and not o["relw"] and not dup and not numh else list(relw_all)
    if o["font"] != 1:
        body_kw["text_font"] = o["font"]
    if o["size"] != 9:
        body_kw["text_font_size"] = o["size"]
    if has_pb(c):
        body_kw["page_by"] = pbcols
        body_kw["new_page"] = c["newpage"]
        body_kw["pageby_row"] = c["pbrow"]
    if has_sub(c):
        body_kw["subline_by"] = subcols
    body = rtf.RTFBody(**body_kw)

    kw = dict(df=df, rtf_page=page, rtf_body=body)
    kw["rtf_title"] = rtf.RTFTitle(text="~T~") if c["title"] else None
    if c["subline"]:
        kw["rtf_subline"] = rtf.RTFSubline(text="~SL~")
    nk = len(kept)
    if c["hdr"] == "none":
        kw["rtf_column_header"] = []
    elif c["hdr"] == "default":
        pass
    elif c["hdr"] == "explicit":
        hk = dict(text=["~H1.%d~" % j for j in range(1, nk + 1)])
        if o["hdr_own_widths"]:
            hk["col_rel_width"] = list(relw_kept)
        kw["rtf_column_header"] = [rtf.RTFColumnHeader(**hk)]
    elif c["hdr"] == "explicit2":
        h1 = dict(text=["~H1.1~"], col_rel_width=[1])
        h2 = dict(text=["~H2.%d~" % j for j in range(1, nk + 1)])
        if o["hdr_own_widths"]:
            h2["col_rel_width"] = list(relw_kept)
        kw["rtf_column_header"] = [rtf.RTFColumnHeader(**h1), rtf.RTFColumnHeader(**h2)]
    if c["foot"] != "none":
        kw["rtf_footnote"] = rtf.RTFFootnote(text="~FN~", as_table=(c["foot"] == "table"))
    if c["src"] != "none":
        kw["rtf_source"] = rtf.RTFSource(text="~SRC~", as_table=(c["src"] == "table"))
    if o["pghdr"]:
        kw["rtf_page_header"] = (rtf.RTFPageHeader(text=["~PH~", "~PH2~"], text_justification=["l", "r"], text_indent_left=[0, 360],
                                                   text_space_before=[15, 60])
                                 if o.get("pghdr2") else rtf.RTFPageHeader(text="~PH~"))
    if o["pgftr"]:
        kw["rtf_page_footer"] = (rtf.RTFPageFooter(text=["~PF~", "~PF2~", "~PF3~"], text_justification=["r", "c", "l"], text_font_size=[9, 12, 8])
                                 if o.get("pgftr2") else rtf.RTFPageFooter(text="~PF~"))
    if c.get("hdrtuple") and isinstance(kw.get("rtf_column_header"), list) and kw["rtf_column_header"]:
        kw["rtf_column_header"] = tuple(kw["rtf_column_header"])
    if o.get("repage"):
        # constructed with a page of another table width, the scenario's page assigned before encoding: every row must
        # follow the page the document has when it is encoded
        kw0 = dict(kw)
        kw0["rtf_page"] = rtf.RTFPage(nrow=c["nrow"], orientation="landscape" if o["orientation"] == "portrait" else "portrait",
                                      page_title=c["ptitle"], page_footnote=c["pfoot"], page_source=c["psrc"],
                                      border_first=o["pagefirst"], border_last=o["pagelast"])
        doc = rtf.RTFDocument(**kw0)
        doc.rtf_page = page
    else:
        doc = rtf.RTFDocument(**kw)
    def expanded(style):
        m = umatrix(style) if style else ""
        keep_idx = [j for j, x in enumerate(cols) if x in kept]
        out = []
        for r in range(n):
            if isinstance(m, str):
                out.append([m for _ in keep_idx])
            elif isinstance(m, tuple):
                out.append([m[r % len(m)] for _ in keep_idx])
            else:
                row = m[r % len(m)]
                out.append([row[j % len(row)] for j in keep_idx])
        return out
    info = {"cols": cols, "kept": kept, "relw_kept": relw_kept, "page": page, "data": data,
            "colw_total": colw_total, "utopm": expanded(o["utop"]), "ubotm": expanded(o["ubot"]),
            # first row of border_top as the caller wrote it (original column positions)
            "utop0raw": ([] if not o["utop"] or isinstance(umatrix(o["utop"]), str) else
                         [umatrix(o["utop"])[0]] if isinstance(umatrix(o["utop"]), tuple) else list(umatrix(o["utop"])[0]))}
    return doc, info


def _twip(x):
    return int(round(x * 1440))


# ---- read back ----

_RE_HEAD = re.compile(r"^(~P\d+\.\d+~|-----)$")
_RE_HDR = re.compile(r"^~(D\d+|PB\d+|SB|H\d+\.\d+)~$")
_RE_SUB = re.compile(r"^~S\d+(, 1*)?~$")
_RE_TAG = re.compile(r"^d(\d{3})\b")


def _lines_lb(cell, colw_in):
    """Independent lower bound of the lines a cell needs at its own font/size/column width."""
    if not cell.text or colw_in <= 0:
        return 1
    w = 0.0
    for run in cell.runs:
        f = (run.get("f") if run.get("f") is not None else 0) + 1
        fs = (run.get("fs") or 18) / 2.0
        if not (1 <= f <= 10):
            f = 1
        w += _width_in(run["text"], f, fs)
    return max(1, int(math.ceil(w / colw_in - 1e-9)))


def _lines_est(cell, colw_in):
    """What a font-unaware estimator (font 1, 9pt) gives: used only to attribute the recorded
    C03 finding 'estimator ignores the body font'."""
    if colw_in <= 0:
        return 1
    return max(1, int(_width_in(cell.text, 1, 9) / colw_in) + 1)


def observe(rtf_text: str, c=None, tagged=True):
    # tagged=False: the cells hold arbitrary texts (a random text may happen to look like a row tag): rows are
    # identified by their position only
    from rtfreader import parse, row_summary
    doc = parse(rtf_text)
    ev = []

    def E(k, p, **kw):
        e = {"k": k, "p": p, "r": 0, "lv": 0, "val": "", "wt": 0, "est": 0, "tag": 0,
             "cx": [], "top": [], "bot": [], "lft": [], "rgt": [], "tx": [], "geom": []}
        e.update(kw)
        ev.append(e)
        return e

    def geomvec(pg):
        out = []
        for k in GEOM_KEYS:
            v = pg.geom.get(k)
            out.append(v[0] if v and len(v) == 1 and v[0] is not None else -1)
        return out

    ndata = 0
    for pi, pg in enumerate(doc.pages):
        p = pi + 1
        if p > 1:
            E("break", p, geom=geomvec(pg))
        for b in pg.blocks:
            if b.kind == "para":
                t = b.text
                if t == "" and not [e for e in b.events if e[0] != "c"]:
                    continue
                if t == "~T~":
                    E("title", p)
                elif t == "~SL~":
                    E("subline", p)
                elif _RE_SUB.match(t):
                    E("subhead", p, val=t, wt=1, est=1)
                elif t == "~FN~":
                    E("foot_p", p)
                elif t == "~SRC~":
                    E("src_p", p)
                else:
                    E("other", p, val=t[:40])
            elif b.kind == "row":
                s = row_summary(b)
                texts = s["texts"]
                common = dict(cx=[x if x is not None else -1 for x in s["cellx"]], top=s["top"], bot=s["bottom"],
                              lft=s["left"], rgt=s["right"], tx=texts)
                if len(texts) == 1 and texts[0] == "~FN~":
                    E("foot_t", p, wt=1, est=1, **common)
                elif len(texts) == 1 and texts[0] == "~SRC~":
                    E("src_t", p, wt=1, est=1, **common)
                elif len(texts) == 1 and len(b.defs) == 1 and _RE_HEAD.match(texts[0]):
                    lv = int(texts[0][2]) if texts[0].startswith("~P") else 0
                    E("head", p, lv=lv, val=texts[0], wt=1, est=1, **common)
                elif texts and all(_RE_HDR.match(t) for t in texts):
                    lv = int(texts[0][2]) if texts[0].startswith("~H") else 1
                    E("colhdr", p, lv=lv, wt=1, est=1, **common)
                else:
                    ndata += 1
                    wt = est = 1
                    prev = 0
                    for cell, d in zip(b.cells, b.defs):
                        cw = ((d["cellx"] or 0) - prev) / 1440.0
                        prev = d["cellx"] or 0
                        wt = max(wt, _lines_lb(cell, cw))
                        est = max(est, _lines_est(cell, cw))
                    tag = 0
                    for t in (texts if tagged else []):
                        m = _RE_TAG.match(t)
                        if m:
                            tag = int(m.group(1))
                            break
                    # rows carrying a tag are identified by it, others by position
                    E("data", p, r=(tag if tag else ndata), tag=tag, wt=wt, est=est, **common)
            elif b.kind == "pict":
                E("other", p, val="pict")
    obs = {"geom": geomvec(doc.pages[0]), "landscape": bool(doc.pages[0].landscape),
           "nheader": len(doc.headers), "nfooter": len(doc.footers),
           "lexerrs": len(doc.lexerrs), "struct": doc.struct}
    return ev, obs


def expected_extras(c, o, info):
    page = info["page"]
    kept = info["kept"]
    rows = []
    for r in range(c["n"]):
        row = []
        for x in kept:
            v = info["data"][x][r]
            row.append("" if v is None else str(v))
        rows.append(row)
    geom = [_twip(page.width), _twip(page.height)] + [_twip(m) for m in page.margin]
    return {
        "rows": rows, "geom": geom, "landscape": o["orientation"] == "landscape",
        "pghdr": bool(o["pghdr"]), "pgftr": bool(o["pgftr"]),
        "uleft": o["uleft"], "uright": o["uright"], "utopm": info["utopm"], "ubotm": info["ubotm"], "utop0raw": info["utop0raw"],
        "W": _twip(info["colw_total"]),
        "relw": [int(round(w * 10)) for w in info["relw_kept"]],
        "hdrinherit": (c["hdr"] in ("default", "explicit") and not o["hdr_own_widths"]),
        "fontdev": (o["font"] != 1 or o["size"] != 9),
    }


def run_one(sc):
    """sc = {"id":…, "c": primitives, "o": option overrides, "pred": predicted events or None}"""
    c = dict(PRIM_DEFAULTS)
    c.update(sc["c"])
    o = opts_from_cfg(c, sc.get("o"))
    rec = {"id": sc["id"], "c": {k: c[k] for k in PRIMS}, "ev": [], "outcome": "ok", "o": sc.get("o") or {}}
    try:
        doc, info = build(c, o)
    except Exception as ex:  # constructor refused: not a pipeline scenario
        rec["outcome"] = "construct:" + type(ex).__name__ + ":" + str(ex)[:200]
        return rec
    if o.get("sibling"):
        # whatever the library remembered from the sibling (measurements, page-break blocks, layouts ...) must not show in
        # the document under test
        try:
            c2, o2 = dict(c), dict(o)
            kind = o["sibling"]
            if kind == "nrow":
                c2["nrow"] = c["nrow"] + 2
            elif kind == "paper":
                o2.update(PAPERS["custom" if c.get("paper", "letter") != "custom" else "landscape"])
                if "orientation" not in PAPERS["custom" if c.get("paper", "letter") != "custom" else "landscape"]:
                    o2["orientation"] = "portrait"
            elif kind == "font":
                o2["font"], o2["size"] = (4, 12) if (o["font"], o["size"]) != (4, 12) else (1, 9)
            elif kind == "rows" and c["n"] >= 2:
                pass
            build(c2, o2, nrows=(c["n"] - 1 if kind == "rows" and c["n"] >= 2 else None))[0].rtf_encode()
        except Exception:  # noqa - the sibling document is not under test
            pass
    if o.get("shadow"):
        try:
            o2 = dict(o)
            o2["convert"] = not o["convert"]
            build(c, o2)[0].rtf_encode()
        except Exception:  # noqa - the shadow document is not under test
            pass
    try:
        text = doc.rtf_encode()
    except Exception as ex:
        rec["outcome"] = "encode:" + type(ex).__name__ + ":" + str(ex)[:200]
        return rec
    ev, obs = observe(text, c, tagged=o["texts"] is None)
    extras = expected_extras(c, o, info)
    extras["obs"] = {k: obs[k] for k in ("geom", "landscape", "nheader", "nfooter")}
    prefixes = []
    if o["prefixes"]:
        for m in range(1, c["n"]):
            d2, _ = build(c, o, nrows=m)
            ev2, _ = observe(d2.rtf_encode(), c, tagged=o["texts"] is None)
            pv = {}
            for e in ev2:
                if e["k"] == "data":
                    pv[e["r"]] = e["p"]
            prefixes.append([pv.get(r, 0) for r in range(1, m + 1)])
    extras["prefixes"] = prefixes
    rec["c"].update(extras)
    rec["ev"] = ev
    rec["lex"] = obs["lexerrs"]
    rec["struct"] = obs["struct"]
    if sc.get("pred") is not None:
        # the prediction is only meaningful if every row has the height the scenario asked for
        hs = {e["r"]: e["est"] for e in ev if e["k"] == "data"}
        if any(hs.get(r + 1) != c["h"][r] for r in range(c["n"])) and o["texts"] is None:
            rec["pred_valid"] = False
    if sc.get("pred") is not None and rec.get("pred_valid", True):
        def uni(x):
            # one style for a uniform edge, the tuple of per-column styles otherwise
            x = list(x)
            return (x[0] if x and all(y == x[0] for y in x) else tuple(x)) if x else ""
        trow = ("colhdr", "head", "data", "foot_t", "src_t")
        po = [(e["k"], e["p"], e["r"], e["lv"], e["val"], uni(e["top"]) if e["k"] in trow else "",
               uni(e["bot"]) if e["k"] in trow else "") for e in sc["pred"]]
        oo = [(e["k"], e["p"], e["r"] if e["k"] == "data" else 0, e["lv"] if e["k"] in ("head", "colhdr") else 0,
               e["val"] if e["k"] in ("head", "subhead") else "", uni(e["top"]) if e["k"] in trow else "",
               uni(e["bot"]) if e["k"] in trow else "") for e in ev]
        if po != oo:
            k = 0
            while k < min(len(po), len(oo)) and po[k] == oo[k]:
                k += 1
            rec["drift"] = {"at": k, "pred": po[k] if k < len(po) else None, "obs": oo[k] if k < len(oo) else None}
    return rec


def replay_text(sc):
    """Re-run one scenario and return the RTF text (for replay files)."""
    c = dict(PRIM_DEFAULTS)
    c.update(sc["c"])
    doc, _ = build(c, opts_from_cfg(c, sc.get("o")))
    return doc.rtf_encode()
