"""Driver for C13 (group_by suppression and page-context restoration)."""
from __future__ import annotations

import re

from common import setup_path

setup_path()
_TAG = re.compile(r"^d(\d{3})$")


# "collide" spelling: per level, digit strings such that different key tuples concatenate to the same text
# (level 1: a=1 b=11 c=111; level 2: a=12 b=2 c=112 -> (a,a) and (b,b) both read "112"; level 3: a=3 b=13 c=23)
SPELL = {1: {"a": "1", "b": "11", "c": "111"}, 2: {"a": "12", "b": "2", "c": "112"}, 3: {"a": "3", "b": "13", "c": "23"}}


def spell(c, level, sym):
    if sym == "NULL":
        return None
    return SPELL[level][sym] if c.get("spell") == "collide" else sym


def unspell(c, level, text):
    if text == "" or c.get("spell") != "collide":
        return text
    inv = {v: k for k, v in SPELL[level].items()}
    return inv.get(text, "?" + text)


def build(c):
    import polars as pl
    import rtflite as rtf
    n, L = c["n"], c["nlev"]
    gcols = ["G%d" % l for l in range(1, L + 1)]
    data = {}
    for l, g in enumerate(gcols):
        data[g] = [spell(c, l + 1, c["keys"][r][l]) for r in range(n)]
    data["ID"] = ["d%03d" % (r + 1) for r in range(n)]
    data["X"] = ["x%d" % (r + 1) for r in range(n)]
    # the frame may hold the group_by columns in another order than group_by lists them
    cols = (list(reversed(gcols)) if c.get("gorder") == "rev" else gcols) + ["ID", "X"]
    combo = c.get("combo", "none")
    kw = dict(group_by=gcols)
    nrow = c["cap"]
    if combo in ("pageby", "subline"):
        half = (n + 1) // 2
        data["Z"] = ["~P1.1~" if r < half else "~P1.2~" for r in range(n)]
        cols = ["Z"] + cols
        if combo == "pageby":
            kw["page_by"] = ["Z"]
        else:
            kw["subline_by"] = ["Z"]
            nrow += 1
    df = pl.DataFrame({x: data[x] for x in cols}, schema={x: pl.Utf8 for x in cols})
    doc = rtf.RTFDocument(df=df, rtf_page=rtf.RTFPage(nrow=nrow), rtf_body=rtf.RTFBody(**kw), rtf_title=None,
                          rtf_column_header=[])
    return doc, df


def run_one(sc):
    from rtfreader import parse
    c = dict(sc["c"])
    rec = {"id": sc["id"], "c": c, "ev": [], "outcome": "ok"}
    try:
        doc, df = build(c)
        before = df.clone()
    except Exception as ex:
        rec["outcome"] = "construct:" + type(ex).__name__
        c["outcome"] = rec["outcome"]
        return rec
    try:
        text = doc.rtf_encode()
    except ValueError as ex:
        rec["outcome"] = "ValueError"
        rec["msg"] = str(ex)[:200]
        text = None
    except Exception as ex:
        rec["outcome"] = "error:" + type(ex).__name__ + ":" + str(ex)[:150]
        text = None
    c["outcome"] = rec["outcome"] if rec["outcome"] in ("ok", "ValueError") else "other"
    c["others"] = [["d%03d" % (r + 1), "x%d" % (r + 1)] for r in range(c["n"])]
    rec["df_unchanged"] = bool(df.equals(before))
    if text is None:
        return rec
    d = parse(text)
    L = c["nlev"]
    ev = []
    for pi, pg in enumerate(d.pages):
        first = True
        for b in pg.blocks:
            if b.kind != "row":
                continue
            texts = [x.text for x in b.cells]
            tag = 0
            for t in texts:
                m = _TAG.match(t)
                if m:
                    tag = int(m.group(1))
            if not tag:
                continue
            gtexts = list(reversed(texts[:L])) if c.get("gorder") == "rev" else texts[:L]
            ev.append({"r": tag, "p": pi + 1, "first": first, "gx": [unspell(c, l + 1, t) for l, t in enumerate(gtexts)], "ox": texts[L:]})
            first = False
    rec["ev"] = ev
    if sc.get("pred") is not None and sc["pred"].get("outcome") == "ok" and c.get("combo", "none") == "none":
        for e in ev:
            for l in range(L):
                want = sc["pred"]["shown"][e["r"] - 1][l]
                key = c["keys"][e["r"] - 1][l]
                got_shown = e["gx"][l] != ""
                if key != "NULL" and want != got_shown:
                    rec["drift"] = {"row": e["r"], "level": l + 1, "pred_shown": want, "obs": e["gx"][l]}
                    break
            if "drift" in rec:
                break
    return rec
