"""C20: string width measurement is consistent."""
from __future__ import annotations

import json

import family
import strwidth20
from common import Ctx, MachineryError, pmap

JUDGE = ["C20_Zero", "C20_NonNegative", "C20_Monotone", "C20_ByName", "C20_Exact64", "C20_Mono", "C20_Scale", "C20_ScaleModuloQuantisation", "C20_Units", "C20_Reject"]
BASE = dict(Fonts=set(range(1, 11)), SizeIdx=set(range(1, len(strwidth20.SIZES) + 1)), Classes={"ascii", "latin1", "greek"}, Units={"in", "mm", "px"},
            DpiIdx=set(range(1, 7)), BadKinds={"font_number", "font_name", "unit"}, Modes={"mixed"}, MinHomog=1)
ALLCLASSES = {"ascii", "latin1", "greek", "digit", "upper", "lower", "space", "punct", "rep", "kern"}
PLAN = {"quick": dict(exh_len=1, sim_len=14, sim_num=2000, homog_num=2500), "thorough": dict(exh_len=2, sim_len=14, sim_num=100000, homog_num=60000)}


def _judge(ctx, work, recs):
    traces = [{"id": r["id"], "c": r["c"], "ev": r["ev"]} for r in recs]
    verdicts = family.validate(ctx, work, "WidthTrace", traces, JUDGE, name="width", chunk=4000)
    for r in recs:
        if r["c"]["outcome"].startswith("other"):
            ctx.violation("get_string_width raised an unexpected exception: %s" % r["c"]["outcome"], {"scenario": {"h": r["h"], "text": r["text"]}})
            continue
        by = {}
        for b in verdicts.get(r["id"], []):
            by.setdefault(b["cl"], []).append(b["at"])
        for cl, ats in by.items():
            if cl == "C20_Scale" and "C20_ScaleModuloQuantisation" not in by:
                # the deviation is within what the 1/64 px rounding of every glyph advance explains (TLC clause
                # C20_ScaleModuloQuantisation holds): a recorded finding if the text is narrower than 2 px, or if its glyphs
                # advance less than 2 px each
                wmin = min(r["c"]["w1"], r["c"]["w2"])
                nglyph = max(1, len(r["ev"]) and r["ev"][-1]["n"])
                which = "sub_2px_width" if wmin < 128 else ("sub_2px_per_glyph" if wmin < 128 * nglyph else None)
                f = next((f for f in ctx.known if f.get("applies") == which), None) if which else None
                if f:
                    ctx.known_finding(f["id"], f["text"])
                    continue
            ctx.violation("%s fails for text %r font %d size index %d: %s" % (cl, r["text"], r["h"]["font"], r["h"]["size"], json.dumps(r["c"])),
                          {"clause": cl, "at": min(ats), "scenario": {"h": r["h"], "text": r["text"], "seed": r.get("seed")}, "widths": r["ev"], "measures": r["c"]})


def run(pid, tier, seed, replay=None):
    ctx = Ctx(pid, tier, seed)
    work = family.Work()
    plan = PLAN[tier]
    try:
        if replay:
            sc = json.load(open(replay))["scenario"]
            rec = strwidth20.run_one({"id": 0, "h": sc["h"], "seed": sc.get("seed", seed)})
            _judge(ctx, work, [rec])
            ctx.note_case("a", True); ctx.note_case("b", True); ctx.sample({"replayed": sc}); ctx.rule = "replay"
            return ctx.finish()
        for f in ctx.known:
            ww = f.get("witness_width")
            if ww:
                hh = {"font": ww["font"], "size": strwidth20.SIZES.index(ww["size"]) + 1, "txt": ["ascii"] * len(ww["text"]), "unit": "px", "dpi": 2, "bad": "none"}
                wrec = strwidth20.run_one({"id": -1, "h": hh, "seed": 0, "text": ww["text"], "size2": ww["size2"]})
                _judge(ctx, work, [wrec])
        mc = dict(BASE); mc["MaxLen"] = 1
        res = family.model_check(ctx, work, "StrWidth", mc, [], ["AppendOnly"], "history model")
        if res.violated:
            raise MachineryError("StrWidth model violates %s" % res.violated)
        g1 = dict(BASE); g1["MaxLen"] = plan["exh_len"]
        got = family.generate(ctx, work, "StrWidth", g1, "short")
        ctx.extra["exhaustive_histories"] = len(got)
        g2 = dict(BASE); g2["MaxLen"] = plan["sim_len"]
        got += family.generate(ctx, work, "StrWidth", g2, "long", simulate_num=plan["sim_num"], depth=plan["sim_len"] + 8, seed=seed)
        # homogeneous texts (all digits / capitals / blanks / one repeated character ...) closed by one other character
        g3 = dict(BASE); g3.update(MaxLen=plan["sim_len"], Classes=ALLCLASSES, Modes={"homog", "mixed"}, MinHomog=4)
        hom = family.generate(ctx, work, "StrWidth", g3, "homog", simulate_num=plan["homog_num"], depth=plan["sim_len"] + 10, seed=seed + 1)
        ctx.extra["homogeneous_histories"] = sum(1 for x in hom if x.get("mode") == "homog")
        got += hom
        items = []
        seen = set()
        for hh in got:
            key = json.dumps(hh, sort_keys=True)
            if key in seen and len(hh["txt"]) <= plan["exh_len"]:
                continue
            seen.add(key)
            items.append({"id": len(items), "h": hh, "seed": seed * 104729 + len(items)})
        recs = pmap(strwidth20.run_one, items, chunk=32)
        for it, r in zip(items, recs):
            r["seed"] = it["seed"]
            ctx.note_case((json.dumps(it["h"], sort_keys=True), r["text"]), len(it["h"]["txt"]) >= 1)
        _judge(ctx, work, recs)
        ctx.extra["fonts_covered"] = sorted({r["h"]["font"] for r in recs})
        ctx.extra["rejections"] = sum(1 for r in recs if r["c"]["outcome"] == "ValueError")
        if len(ctx.extra["fonts_covered"]) < 10 or ctx.extra["rejections"] == 0:
            raise MachineryError("vacuity guard")
        for r in recs[:2] + recs[-2:]:
            ctx.sample({"history": r["h"], "text": r["text"], "widths_1_64_px": [e["w64"] for e in r["ev"]], "measures": r["c"]})
        ctx.rule = ("measurement histories generated by TLC from spec/StrWidth.tla (font x size x character classes x unit x dpi, and unsupported font/unit): all histories "
                    "up to %d characters, simulated ones up to %d; characters drawn from printable ASCII, Latin-1 and Greek; non-trivial = at least one character"
                    % (plan["exh_len"], plan["sim_len"]))
        ctx.assumptions = ["widths are logged exactly as integers of 1/64 px (checked by C20_Exact64)", "unit-conversion error computed by the harness against the exact "
                           "rational conversion and judged by TLC as an integer number of ulps"]
        return ctx.finish()
    finally:
        work.close()
