"""Replays behaviours of spec/FindBreaks.tla on the real PageBreakCalculator.find_page_breaks."""
from __future__ import annotations

from common import setup_path

setup_path()
COLW = [1.5, 2.0]


def run_one(item):
    import polars as pl
    from rtflite import PageBreakCalculator, RTFPagination
    import pipeline
    sc = item["sc"]
    n = sc["n"]
    rec = {"id": item["id"], "sc": sc, "diff": None}
    g, labels = 0, []
    for r in range(n):
        if sc["chg"][r]:
            g += 1
        labels.append("G%d" % g)
    texts = [pipeline.filler("d%03d" % (r + 1), sc["h"][r], COLW[1], 1, 9) for r in range(n)]
    df = pl.DataFrame({"g": labels, "d": texts}, schema={"g": pl.Utf8, "d": pl.Utf8})
    extra = item.get("additional", 0)
    calc = PageBreakCalculator(pagination=RTFPagination(page_width=8.5, page_height=11, margin=[1.25, 1, 1.75, 1.25, 1.75, 1.00625],
                                                        nrow=sc["avail"] + extra, orientation="portrait"))
    try:
        heights = list(calc.calculate_content_rows(df, COLW, spanning_columns=["g"]))
        got = [list(p) for p in calc.find_page_breaks(df, COLW, page_by=["g"], new_page=sc["newpage"], additional_rows_per_page=extra)]
    except Exception as ex:  # noqa
        rec["diff"] = "raised %s: %s" % (type(ex).__name__, str(ex)[:120])
        return rec
    if heights != list(sc["h"]):
        rec["diff"] = "row heights %s, scenario asked for %s" % (heights, sc["h"])
    elif got != [list(p) for p in item["pages"]]:
        rec["diff"] = "pages %s, specified %s" % (got, item["pages"])
    return rec
