"""Property id -> check function(pid, tier, seed, replay) -> exit code."""
import check_pipeline

CHECKS = {}
for _p in check_pipeline.PROPS:
    CHECKS[_p] = check_pipeline.run

import check_cell
CHECKS["C09"] = check_cell.run

import check_group
CHECKS["C13"] = check_group.run

import check_color
CHECKS["C12"] = check_color.run

import check_hist
CHECKS["C14"] = check_hist.run

import check_conc
CHECKS["C15"] = check_conc.run

import check_export
CHECKS["C18"] = check_export.run

import check_assemble
CHECKS["C17"] = check_assemble.run

import check_text
CHECKS["C11"] = check_text.run

import check_unicode
CHECKS["C10"] = check_unicode.run

import check_figure
CHECKS["C16"] = check_figure.run

import check_validate
CHECKS["C19"] = check_validate.run

import check_width
CHECKS["C20"] = check_width.run

import check_wellformed
CHECKS["C01"] = check_wellformed.run
