"""C13: group_by blanks only true repeats and restores context on each page."""
from __future__ import annotations

import json
import random

import family
import groupby
from common import Ctx, MachineryError, pmap

# deviation flags describing the tree under test (flip to TRUE/TRUE once repaired)
IMPL = dict(NullAware=True, HierOnOriginal=True)
INTENDED = dict(NullAware=True, HierOnOriginal=True)
AB = {"a", "b", "NULL"}
GEN = {
    "quick": [dict(consts=dict(NSet={1, 2, 3, 4}, LevelSet={1, 2}, Alphabet=AB, CapSet={2, 100}, SpellSet={"plain"}, OrderSet={"asc"})),
              # colliding spellings and group_by columns stored in reverse order, two levels, every key sequence
              dict(consts=dict(NSet={2, 3}, LevelSet={2}, Alphabet=AB, CapSet={2, 100}, SpellSet={"plain", "collide"}, OrderSet={"asc", "rev"})),
              dict(consts=dict(NSet={5, 6, 8, 20, 60}, LevelSet={1, 2, 3}, Alphabet={"a", "b", "c", "NULL"}, CapSet={1, 2, 3, 5, 7, 100}, SpellSet={"plain", "collide"}, OrderSet={"asc", "rev"}), simulate=600)],
    "thorough": [dict(consts=dict(NSet={1, 2, 3, 4, 5}, LevelSet={1, 2}, Alphabet=AB, CapSet={2, 3, 100}, SpellSet={"plain"}, OrderSet={"asc"})),
                 dict(consts=dict(NSet={2, 3, 4}, LevelSet={2}, Alphabet=AB, CapSet={2, 100}, SpellSet={"plain", "collide"}, OrderSet={"asc", "rev"})),
                 dict(consts=dict(NSet={6}, LevelSet={1}, Alphabet=AB, CapSet={1, 2, 3, 4, 5, 100}, SpellSet={"plain"}, OrderSet={"asc"})),
                 dict(consts=dict(NSet={5, 6, 8, 20, 60}, LevelSet={1, 2, 3}, Alphabet={"a", "b", "c", "NULL"}, CapSet={1, 2, 3, 5, 7, 100}, SpellSet={"plain", "collide"}, OrderSet={"asc", "rev"}), simulate=9000)],
}
MODEL = {"quick": dict(NSet={1, 2, 3, 4}, LevelSet={1, 2}, Alphabet=AB, CapSet={2, 100}, SpellSet={"plain"}, OrderSet={"asc"}),
         "thorough": dict(NSet={1, 2, 3, 4, 5}, LevelSet={1, 2}, Alphabet=AB, CapSet={2, 3, 100}, SpellSet={"plain"}, OrderSet={"asc"})}
JUDGE = ["C13_Blank", "C13_Others", "C13_Reject", "C13_FillDown", "C13_Rows"]


def _contig_sorted_variant(rng, c):
    """Most random key sequences are non-contiguous; also produce the sorted (contiguous) variant."""
    keys = sorted(c["keys"], key=lambda k: [("~" if v == "NULL" else v) for v in k])
    c2 = dict(c)
    c2["keys"] = keys
    return c2


def _judge(ctx, work, recs):
    ok = [{"id": r["id"], "c": r["c"], "ev": r["ev"]} for r in recs]
    verdicts = family.validate(ctx, work, "GroupTrace", ok, JUDGE, name="group")
    for r in recs:
        if r["outcome"].startswith("error") or r["outcome"].startswith("construct"):
            ctx.violation("unexpected exception instead of a rendering or ValueError: %s" % r["outcome"], {"scenario": {"c": r["c"]}})
            continue
        if not r.get("df_unchanged", True):
            ctx.violation("rtf_encode modified the caller's DataFrame", {"scenario": {"c": r["c"]}})
        bad = verdicts.get(r["id"], [])
        by = {}
        for b in bad:
            by.setdefault(b["cl"], []).append(b["at"])
        for cl, ats in by.items():
            at = min(ats)
            ctx.violation("%s fails at row %d: %s" % (cl, at, json.dumps(r["ev"][at - 1]) if at <= len(r["ev"]) else "outcome=%s" % r["outcome"]),
                          {"clause": cl, "at": at, "scenario": {"c": {k: v for k, v in r["c"].items() if k not in ("others",)}}, "rows": r["ev"][:40]})


def run(pid, tier, seed, replay=None):
    ctx = Ctx(pid, tier, seed)
    work = family.Work()
    rng = random.Random(seed)
    try:
        if replay:
            rp = json.load(open(replay))
            c = {k: v for k, v in rp["scenario"]["c"].items() if k not in ("outcome", "others")}
            rec = groupby.run_one({"id": 0, "c": c})
            _judge(ctx, work, [rec])
            ctx.note_case("a", True); ctx.note_case("b", True); ctx.sample({"replayed": replay}); ctx.rule = "replay"
            return ctx.finish()
        mc = dict(MODEL[tier]); mc.update(INTENDED)
        res = family.model_check(ctx, work, "GroupBy", mc, ["C13_Blank", "C13_Reject"], ["RestoreOnlyShows"], "intended")
        if res.violated:
            raise MachineryError("intended GroupBy model violates %s\n%s" % (res.violated, res.counterexample[:2000]))
        if IMPL != INTENDED:
            mc2 = dict(MODEL[tier]); mc2.update(IMPL)
            res = family.model_check(ctx, work, "GroupBy", mc2, ["C13_Blank", "C13_Reject"], [], "as-implemented")
            ctx.extra["as_implemented_model_violates"] = res.violated
        scs = []
        for gi, g in enumerate(GEN[tier]):
            consts = dict(g["consts"]); consts.update(IMPL)
            if g.get("simulate"):
                got = family.generate(ctx, work, "GroupBy", consts, "gen%d" % gi, simulate_num=g["simulate"],
                                      depth=30 + 2 * max(consts["NSet"]), seed=seed + gi)
            else:
                got = family.generate(ctx, work, "GroupBy", consts, "gen%d" % gi)
                ctx.extra.setdefault("exhaustive_families_replayed_whole", []).append(len(got))
            seen = set()
            for s in got:
                key = json.dumps(s["cfg"], sort_keys=True)
                if key in seen:
                    continue
                seen.add(key)
                scs.append({"c": s["cfg"], "pred": {"outcome": s["outcome"], "shown": s["shown"]}})
                if g.get("simulate"):
                    # a contiguous re-ordering of the same rows and combinations with page_by / subline_by
                    c2 = _contig_sorted_variant(rng, s["cfg"])
                    scs.append({"c": c2, "pred": None})
                    c3 = dict(c2); c3["combo"] = rng.choice(["pageby", "subline"])
                    scs.append({"c": c3, "pred": None})
                    # non-contiguous orders combined with page_by / subline_by: the original order, and an order that is
                    # contiguous inside each page_by / subline_by group but repeats the keys of the first group in the second
                    c4 = dict(s["cfg"]); c4["combo"] = rng.choice(["pageby", "subline"])
                    scs.append({"c": c4, "pred": None})
                    half = (len(c2["keys"]) + 1) // 2
                    if len(c2["keys"]) >= 2 and len(c2["keys"]) % 2 == 0:
                        c5 = dict(c2); c5["keys"] = c2["keys"][:half] + c2["keys"][:half]; c5["combo"] = rng.choice(["pageby", "subline"])
                        scs.append({"c": c5, "pred": None})
        for i, s in enumerate(scs):
            s["id"] = i
        recs = pmap(groupby.run_one, scs, chunk=16)
        _judge(ctx, work, recs)
        nd = 0
        nrej = 0
        for r in recs:
            c = r["c"]
            ctx.note_case(json.dumps({k: c[k] for k in ("keys", "cap", "nlev")}, sort_keys=True) + c.get("combo", ""), c["n"] > 1)
            nrej += r["outcome"] == "ValueError"
            if "drift" in r:
                nd += 1
                ctx.model_drift("C13 %s: %s" % (json.dumps({k: c[k] for k in ("keys", "cap")}), r["drift"]))
        ctx.extra["conformance"] = {"compared_with_model_prediction": sum(1 for s in scs if s["pred"]), "drift": nd}
        ctx.extra["rejected_with_ValueError"] = nrej
        ctx.extra["rendered"] = sum(1 for r in recs if r["outcome"] == "ok")
        if nrej == 0 or ctx.extra["rendered"] == 0:
            raise MachineryError("vacuity guard: need both contiguous and non-contiguous key sequences")
        for r in recs[:3]:
            ctx.sample({"keys": r["c"]["keys"], "cap": r["c"]["cap"], "outcome": r["outcome"], "rows": r["ev"][:8]})
        ctx.rule = ("key sequences over {a,b,(c),null}, 1-3 levels, generated by TLC from spec/GroupBy.tla (all sequences of length<=4/5 "
                    "exhaustively, longer ones by -simulate plus their contiguous re-ordering and page_by/subline_by combinations); non-trivial = more than one row")
        ctx.assumptions = ["independent RTF reader", "page structure is the observed one (first data row of each page read from the trace)"]
        return ctx.finish()
    finally:
        work.close()
