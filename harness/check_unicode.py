"""C10: every Unicode character reaches the reader intact."""
from __future__ import annotations

import json
import random

import family
import unicode10 as uni
from common import Ctx, MachineryError, pmap

# deviation flags of the tree under test
IMPL = dict(EscapeLatin1=True, AstralPairs=True, EscapeEverywhere=True)
INTENDED = dict(EscapeLatin1=True, AstralPairs=True, EscapeEverywhere=True)
# (173, 8194-8221, 8226: the characters RTF also has a control symbol / control word for - soft hyphen, non-breaking hyphen,
#  en/em space and dash, curly quotes, bullet)
BOUNDARY = [32, 65, 126, 160, 173, 176, 177, 178, 233, 255, 256, 945, 8194, 8195, 8209, 8211, 8212, 8216, 8217, 8220, 8221, 8226, 8364, 32767, 32768, 55295, 57344, 65533, 65535, 65536, 128512, 1114111]
JUDGE = ["C10_RoundTrip", "C10_Range", "C10_Fallback", "C10_Lexical"]
PLAN = {"quick": dict(sample=30000, around=64, strings=250, per_doc=2400),
        "thorough": dict(sample=None, around=64, strings=2000, per_doc=2400)}
FORBIDDEN_CONV = set("^_\\{}<>=")


def _judge(ctx, work, recs):
    ok = [r for r in recs if not r.get("error")]
    traces = [{"id": r["id"], "c": r["c"], "ev": r["ev"]} for r in ok]
    verdicts = family.validate(ctx, work, "UniTrace", traces, JUDGE, name="uni", chunk=40)
    for r in recs:
        if r.get("error"):
            ctx.violation("write_rtf failed: %s" % r["error"], {"scenario": {"where": r["where"], "convert": r["convert"], "seg": r.get("seg")}})
            continue
        by = {}
        for b in verdicts.get(r["id"], []):
            by.setdefault(b["cl"], []).append(b["at"])
        for cl, ats in by.items():
            shown = 0
            for at in sorted(ats):
                e = r["ev"][at - 1] if at <= len(r["ev"]) else None
                ctx.violation("%s fails in position %s (convert=%s): put in %s, reader decoded %s, \\u arguments %s"
                              % (cl, r["where"], r["convert"], e["cps"] if e else "-", e["dec"] if e else "-", e["us"] if e else r["c"]),
                              {"clause": cl, "scenario": {"where": r["where"], "convert": r["convert"], "seg": "".join(chr(c) for c in e["cps"]) if e else ""},
                               "event": e, "doc": r["c"]})
                shown += 1
                if shown >= 3:
                    ctx.violation_kinds[cl + "(more in same document)"] = ctx.violation_kinds.get(cl + "(more in same document)", 0) + len(ats) - shown
                    break


def run(pid, tier, seed, replay=None):
    ctx = Ctx(pid, tier, seed)
    work = family.Work()
    rng = random.Random(seed)
    plan = PLAN[tier]
    try:
        if replay:
            sc = json.load(open(replay))["scenario"]
            if sc["where"] == "body":
                recs = [uni.run_body_batch({"id": 0, "segs": [sc["seg"]], "convert": sc["convert"]})]
            else:
                recs = [uni.run_position({"id": 0, "seg": sc["seg"], "where": sc["where"], "convert": sc["convert"]})]
            _judge(ctx, work, recs)
            ctx.note_case("a", True); ctx.note_case("b", True); ctx.sample({"replayed": sc}); ctx.rule = "replay"
            return ctx.finish()
        # MODEL: classes x positions
        mc = dict(CPs=set(BOUNDARY), Positions=set(uni.POSITIONS)); mc.update(INTENDED)
        res = family.model_check(ctx, work, "UniEsc", mc, ["RoundTrip", "Range", "Fallback"], [], "intended")
        if res.violated:
            raise MachineryError("intended UniEsc model violates %s" % res.violated)
        if IMPL != INTENDED:
            mc2 = dict(CPs=set(BOUNDARY), Positions=set(uni.POSITIONS)); mc2.update(IMPL)
            res = family.model_check(ctx, work, "UniEsc", mc2, ["RoundTrip", "Range", "Fallback"], [], "as-implemented")
            ctx.extra["as_implemented_model_violates"] = res.violated
        # GENERATE: class representatives in every position (TLC), both conversion modes
        g = dict(CPs=set(BOUNDARY), Positions=set(uni.POSITIONS)); g.update(IMPL)
        got = family.generate(ctx, work, "UniEsc", g, "classes")
        items = []
        for s in got:
            for conv in (True, False):
                items.append({"id": len(items), "seg": uni.wrap(s["cp"], s["cp"]), "where": s["where"], "convert": conv, "pred_us": [u for u in s["us"] if u != 99999]})
        # random mixed strings in every position
        pools = [list(range(33, 127)), list(range(160, 256)), list(range(256, 0x3000)), list(range(0x8000, 0xD800)), list(range(0xE000, 0x10000)),
                 list(range(0x10000, 0x11000)) + list(range(0x1F300, 0x1F700))]
        for _ in range(plan["strings"]):
            conv = rng.random() < 0.5
            n = rng.randint(1, 12)
            s = ""
            for _k in range(n):
                ch = chr(rng.choice(rng.choice(pools)))
                if ch in FORBIDDEN_CONV or not uni.is_testable(ord(ch)):
                    ch = "z"
                s += ch
            items.append({"id": len(items), "seg": s, "where": rng.choice(uni.POSITIONS), "convert": conv, "pred_us": None})
        # long texts (an ordinary non-Latin sentence has dozens of non-ASCII characters) and Unicode white space
        spaces = [0xA0, 0x1680, 0x2002, 0x2003, 0x2009, 0x200A, 0x2028, 0x2029, 0x202F, 0x205F, 0x3000]
        scripts = [list(range(0x391, 0x3CA)), list(range(0x410, 0x450)), list(range(0x3041, 0x3097)), list(range(0x4E00, 0x4F00)), list(range(0x1F600, 0x1F650))]
        for k in range(plan["strings"] // 4):
            conv = rng.random() < 0.5
            sc = rng.choice(scripts)
            n = rng.choice([31, 32, 33, 34, 40, 64, 65, 100, 129, 257]) if k % 2 == 0 else rng.randint(3, 10)
            s = ""
            for _k in range(n):
                r_ = rng.random()
                ch = chr(rng.choice(spaces)) if r_ < (0.15 if k % 2 == 0 else 0.5) else (chr(rng.choice(sc)) if r_ < 0.9 else rng.choice("abc XYZ,.-"))
                if ch in FORBIDDEN_CONV or ch == "\xa2" and False:
                    ch = "z"
                s += ch
            s = s.strip(" ") or "z"
            items.append({"id": len(items), "seg": s, "where": uni.POSITIONS[k % len(uni.POSITIONS)], "convert": conv, "pred_us": None})
        # homogeneous texts: every character satisfies one of Python's string predicates (a shortcut that tests the whole
        # text - "a plain number", "only letters", "only blanks" - must still escape what is not ASCII)
        preds = ["isdigit", "isdecimal", "isnumeric", "isalpha", "isupper", "islower", "isalnum", "isidentifier", "istitle"]
        cands = [c for c in list(range(0xA0, 0x3100)) + list(range(0xFF00, 0xFFF0)) + list(range(0x1D400, 0x1D800)) + list(range(0x1F100, 0x1F200))
                 if uni.is_testable(c) and chr(c) not in FORBIDDEN_CONV]
        nh = 0
        for pi, pred in enumerate(preds):
            pool = [c for c in cands if getattr(chr(c), pred)()]
            if not pool:
                continue
            for k in range(max(6, plan["strings"] // 10)):
                n = 1 + (k % 3)
                t = "".join(chr(rng.choice(pool)) for _ in range(n))
                if k % 4 == 3 and n >= 2:
                    t = t[0] + rng.choice(".,") + t[1:]
                items.append({"id": len(items), "seg": t, "where": uni.POSITIONS[(k + pi) % len(uni.POSITIONS)], "convert": k % 2 == 0, "pred_us": None, "bare": True})
                nh += 1
        ctx.extra["homogeneous_texts"] = nh
        recs = pmap(uni.run_position, items, chunk=8)
        nd = 0
        for it, r in zip(items, recs):
            ctx.note_case(("pos", it["seg"], it["where"], it["convert"]), any(ord(c) > 127 for c in it["seg"]))
            if it["pred_us"] is not None and not r.get("error") and r["ev"] and r["ev"][0]["us"] != it["pred_us"]:
                nd += 1
                ctx.model_drift("C10 %r in %s (convert=%s): predicted \\u arguments %s, observed %s" % (it["seg"], it["where"], it["convert"], it["pred_us"], r["ev"][0]["us"]))
        ctx.extra["conformance"] = {"compared_with_model_prediction": sum(1 for it in items if it["pred_us"] is not None), "drift": nd}
        # SWEEP: code points through body cells (quick: boundaries +-around and a sample; thorough: every scalar value)
        if plan["sample"] is None:
            cps = [c for c in range(0x20, 0x110000) if uni.is_testable(c)]
            ctx.exhaustive = True
        else:
            s = set()
            for b in BOUNDARY + [127, 128, 159, 0xD800, 0xDFFF]:
                for c in range(b - plan["around"], b + plan["around"] + 1):
                    if 0 <= c <= 0x10FFFF and uni.is_testable(c):
                        s.add(c)
            while len(s) < plan["sample"]:
                c = rng.randrange(0x20, 0x110000)
                if uni.is_testable(c):
                    s.add(c)
            cps = sorted(s)
        ctx.extra["code_points_swept"] = len(cps)
        # raw RTF metacharacters are outside the quantifier; conversion-triggering ASCII characters
        # are swept with conversion off only (with conversion on they are C11's subject)
        cps = [c for c in cps if c not in (92, 123, 125)]
        batches = []
        base = len(items)
        for k in range(0, len(cps), plan["per_doc"]):
            part = cps[k:k + plan["per_doc"]]
            conv = (len(batches) % 2 == 0) and not any(chr(c) in FORBIDDEN_CONV for c in part)
            batches.append({"id": base + len(batches), "segs": [uni.wrap(c, c) for c in part], "convert": conv})
        brecs = pmap(uni.run_body_batch, batches, chunk=1)
        ctx.evaluations += len(cps)
        for c in cps[::max(1, len(cps) // 4000)]:
            ctx.nontrivial.add("cp%d" % c)
        ctx.extra["distinct_code_points"] = len(cps)
        _judge(ctx, work, recs + brecs)
        for r in recs[:3]:
            ctx.sample({"position": r["where"], "convert": r["convert"], "segment": r.get("seg"), "events": r["ev"]})
        ctx.sample({"body_batch": brecs[0]["ev"][:5]})
        ctx.rule = ("(a) class representatives (both neighbours of every boundary of the escaping rule) x 12 text positions x conversion on/off, enumerated by TLC from "
                    "spec/UniEsc.tla; (b) random mixed strings in random positions; (c) %s through body cells (alone, at the start, at the end and inside a string), "
                    "all written with write_rtf and decoded from the file bytes; distinct_nontrivial counts (a)+(b) scenarios with a non-ASCII character plus a 1/%d "
                    "subsample of the swept code points" % ("EVERY Unicode scalar value except C0/C1 controls" if plan["sample"] is None else "%d code points (boundaries +-%d and a seeded sample)" % (len(cps), plan["around"]), max(1, len(cps) // 4000)))
        ctx.assumptions = ["reader decodes raw high bytes in code page 1252 (\\\\ansi without \\\\ansicpg)", "fallback characters counted by the reader's \\\\uc skipping"]
        return ctx.finish()
    finally:
        work.close()
