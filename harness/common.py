"""Shared check infrastructure: context, evidence, known findings, parallel map."""
from __future__ import annotations

import hashlib
import json
import os
import subprocess
import sys
import time

ROOT = os.path.dirname(os.path.dirname(os.path.abspath(__file__)))
EVID = os.path.join(ROOT, "evidence") if not os.environ.get("VERIF_NOEVIDENCE") else os.path.join("/tmp", "rtflite-verif-trial-evidence-%d" % os.getpid())
REPLAY = os.path.join(EVID, "replay")
KNOWN = os.path.join(ROOT, "known_findings.json")
REPO_SRC = os.environ.get("RTFLITE_SRC", "/repo/src")


def setup_path():
    """Make `import rtflite` resolve to the working tree under test."""
    if REPO_SRC not in sys.path:
        sys.path.insert(0, REPO_SRC)
    h = os.path.dirname(os.path.abspath(__file__))
    if h not in sys.path:
        sys.path.insert(0, h)


def load_known():
    if not os.path.exists(KNOWN):
        return {"findings": [], "fixed": []}
    with open(KNOWN) as f:
        return json.load(f)


class MachineryError(RuntimeError):
    pass


class Ctx:
    def __init__(self, pid: str, tier: str, seed: int, level: str = "model_checking"):
        self.pid = pid
        self.tier = tier
        self.seed = seed
        self.level = level
        self.t0 = time.time()
        self.states = 0
        self.transitions = 0
        self.traces = 0
        self.evaluations = 0
        self.nontrivial = set()
        self.samples = []
        self.violations = []
        self.violation_kinds = {}
        self.known_seen = {}
        self.known = [f for f in load_known().get("findings", []) if f.get("property") == pid]
        self.extra = {}
        self.assumptions = []
        self.rule = ""
        self.exhaustive = False
        self.tlc_runs = []
        self.drift = []
        os.makedirs(REPLAY, exist_ok=True)

    # ---- bookkeeping ----
    def add_tlc(self, name, res):
        self.states += res.distinct
        self.transitions += res.generated
        self.tlc_runs.append({"run": name, "distinct": res.distinct, "generated": res.generated,
                              "depth": res.depth, "wall_s": round(res.wall, 2),
                              "coverage": {k: v[1] for k, v in res.coverage.items()}})

    def note_case(self, key, nontrivial: bool):
        self.evaluations += 1
        if nontrivial:
            self.nontrivial.add(hashlib.sha1(repr(key).encode()).hexdigest()[:16])

    def sample(self, obj, limit=4):
        if len(self.samples) < limit:
            self.samples.append(obj)

    def violation(self, what: str, replay_obj: dict):
        n = len(self.violations) + 1
        path = os.path.join(REPLAY, "%s-%d.json" % (self.pid, n))
        if n <= 25:
            with open(path, "w") as f:
                json.dump({"property": self.pid, "what": what, **replay_obj}, f, indent=1, default=str)
            print("VIOLATION property=%s replay=%s" % (self.pid, path))
            print("  -> %s" % what)
        self.violations.append(what)
        k = what.split()[0] if what else "?"
        self.violation_kinds[k] = self.violation_kinds.get(k, 0) + 1

    def known_finding(self, fid: str, what: str):
        if fid not in self.known_seen:
            self.known_seen[fid] = 0
            print("KNOWN-FINDING: property=%s %s" % (self.pid, what))
        self.known_seen[fid] += 1

    def model_drift(self, what: str):
        if len(self.drift) < 20:
            self.drift.append(what)
        if len(self.drift) == 1:
            print("MODEL-DRIFT (non-fatal): %s" % what)

    # ---- finish ----
    def finish(self) -> int:
        cov = {
            "states": max(self.states, 0),
            "transitions": max(self.transitions, 0),
            "traces_validated_against_impl": self.traces,
            "evaluations": self.evaluations,
            "distinct_nontrivial": len(self.nontrivial),
            "rule": self.rule,
            "samples": self.samples or [],
            "exhaustive": bool(self.exhaustive),
            "tlc_runs": self.tlc_runs,
            "known_findings_seen": self.known_seen,
            "model_drift": self.drift,
            "violation_kinds": self.violation_kinds,
        }
        cov.update(self.extra)
        ev = {
            "property_id": self.pid, "tier": self.tier, "seed": self.seed, "level": self.level,
            "coverage": cov, "assumptions": self.assumptions,
            "wall_s": round(time.time() - self.t0, 2), "violations": len(self.violations),
        }
        os.makedirs(EVID, exist_ok=True)
        path = os.path.join(EVID, self.pid + ".json")
        with open(path, "w") as f:
            json.dump(ev, f, indent=1, default=str)
        _validate_evidence(path)
        if self.violation_kinds:
            print("violations by kind: %s" % self.violation_kinds)
        print("%s %s: states=%d transitions=%d traces=%d evaluations=%d nontrivial=%d violations=%d known=%s wall=%.1fs"
              % (self.pid, self.tier, self.states, self.transitions, self.traces, self.evaluations,
                 len(self.nontrivial), len(self.violations), dict(self.known_seen), time.time() - self.t0))
        return 1 if self.violations else 0


def _validate_evidence(path):
    schema = "/root/.vp/EVIDENCE.schema.json"
    if not os.path.exists(schema) or not _which("python3-vt"):
        return
    code = ("import json,sys,jsonschema;"
            "jsonschema.validate(json.load(open(sys.argv[1])), json.load(open(sys.argv[2])))")
    p = subprocess.run(["python3-vt", "-c", code, path, schema], stdout=subprocess.PIPE, stderr=subprocess.STDOUT, text=True)
    if p.returncode != 0:
        raise MachineryError("evidence file does not validate:\n" + p.stdout[-2000:])


def _which(x):
    from shutil import which
    return which(x)


# --------------------------------------------------------------------------------------
# parallel execution of real-code runs.  forkserver: children never inherit a parent that
# has executed polars operations (os.fork() after polars work deadlocks).
# --------------------------------------------------------------------------------------

def pmap(func, items, procs: int = 16, chunk: int = 16, timeout: int = 1800):
    items = list(items)
    if not items:
        return []
    if procs <= 1 or len(items) < 8:
        return [func(x) for x in items]
    import multiprocessing as mp
    ctx = mp.get_context("forkserver")
    with ctx.Pool(min(procs, max(1, len(items) // 4)), initializer=_init_worker) as pool:
        r = pool.map_async(func, items, chunksize=chunk)
        return r.get(timeout=timeout)


def _init_worker():
    setup_path()


def write_json(path, obj):
    with open(path, "w") as f:
        json.dump(obj, f, separators=(",", ":"))
