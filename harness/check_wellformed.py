"""C01: every accepted document encodes to well-formed RTF."""
from __future__ import annotations

import json

import docconfig
import family
import tlc
from common import Ctx, MachineryError, pmap, write_json

# deviation flags of the tree under test
IMPL = dict(HeaderOffOk=True, HalfPointOk=True)
INTENDED = dict(HeaderOffOk=True, HalfPointOk=True)
B = {False, True}
STRATS = {"plain", "pageby", "pageby_np_col", "pageby_np_first", "subline", "subpb", "groupby", "gbpb", "gbsub"}
FULL = dict(Paths={"single", "multi", "figure"}, Strats=STRATS, HdrModes={"default", "explicit", "multi", "multi2", "none", "off"}, NSet={0, 1, 2, 5, 12},
            MSet={1, 2, 4}, BoolSet=B, PlaceSet={"first", "last", "all"}, FootSet={"none", "table", "para"}, HFSet=B, PaperSet={"letter", "landscape", "a4", "custom"}, NrowSet={2, 3, 5, 40},
            ShapeSet={"scalar", "col", "matrix", "recycle"}, SizeSet={"int", "half"}, KindSet={"str", "blanks", "int", "float", "null", "field", "long", "astral"}, ContigSet=B,
            KeyTypeSet={"str", "int", "date", "null"}, SeqSet={"list", "tuple", "str"}, PriorSet={"none", "narrow"}, VocabSet={"basic", "full"})
# reduced product: two values per dimension (pairwise interactions complete)
REDUCED = {"quick": dict(Paths={"single", "multi", "figure"}, Strats={"plain", "subpb", "groupby"}, HdrModes={"default", "off"}, NSet={0, 5}, MSet={2}, BoolSet=B,
                         PlaceSet={"all"}, FootSet={"none", "table"}, HFSet={True}, PaperSet={"letter"}, NrowSet={3}, ShapeSet={"matrix", "recycle"}, SizeSet={"int", "half"},
                         KindSet={"null", "astral"}, ContigSet=B, KeyTypeSet={"str"}, SeqSet={"list"}, PriorSet={"none"}, VocabSet={"basic", "full"}),
           # (about 5 x the quick product: one more strategy, header mode and footnote kind; the first thorough attempt
           #  multiplied every dimension and produced more than a million documents)
           "thorough": dict(Paths={"single", "multi", "figure"}, Strats={"plain", "subpb", "groupby", "pageby"}, HdrModes={"default", "off", "multi"}, NSet={0, 5}, MSet={2}, BoolSet=B,
                            PlaceSet={"all"}, FootSet={"none", "table", "para"}, HFSet={True}, PaperSet={"letter"}, NrowSet={3}, ShapeSet={"matrix", "recycle"},
                            SizeSet={"int", "half"}, KindSet={"null", "astral"}, ContigSet=B, KeyTypeSet={"str"}, SeqSet={"list"}, PriorSet={"none"}, VocabSet={"basic", "full"})}
PLAN = {"quick": dict(sim=500), "thorough": dict(sim=12000)}


def _validate(ctx, work, recs):
    out = {}
    for k in range(0, len(recs), 400):
        part = [{"id": r["id"], "c": r["c"], "ev": r["ev"]} for r in recs[k:k + 400]]
        tf = work.path("c01-%d.json" % k)
        write_json(tf, part)
        cfg = work.cfg("c01-%d.cfg" % k, {}, invariants=["TypeOK"])
        res = tlc.run("RtfStream", cfg, env={"TRACE_FILE": tf})
        if res.violated:
            raise MachineryError("RtfStream acceptor invariant violated")
        ctx.add_tlc("validate:structural events[%d:%d]" % (k, k + len(part)), res)
        for j in res.json_lines:
            out[j["id"]] = j["bad"]
    ctx.traces += len(recs)
    if len(out) != len(recs):
        raise MachineryError("missing verdicts: %d of %d" % (len(out), len(recs)))
    return out


def _judge(ctx, work, recs):
    judged = [r for r in recs if r["c"]["outcome"] != "not-accepted"]
    verdicts = _validate(ctx, work, judged)
    for r in judged:
        by = {}
        for b in verdicts.get(r["id"], []):
            by.setdefault(b["cl"], []).append(b["at"])
        for cl, ats in by.items():
            ctx.violation("%s/%s/%s: outcome %s (expected %s)%s for %s" % (cl, r["c"]["outcome"].replace(" ", "_"), (r.get("msg") or "")[:36].replace(" ", "_").replace("\n", "_"), r["c"]["outcome"], r["c"]["expected"], " " + r.get("msg", "")[:120] if r.get("msg") else "",
                                                                    json.dumps({k: r["cfg"][k] for k in ("path", "strat", "hdr", "n", "m", "size", "kind", "shape", "nrow", "foot", "src")})),
                          {"clause": cl, "at": min(ats), "scenario": {"c": r["cfg"]}, "observed": r["c"], "lexerrs": r.get("lex"), "message": r.get("msg")})


def run(pid, tier, seed, replay=None):
    ctx = Ctx(pid, tier, seed)
    work = family.Work()
    try:
        if replay:
            sc = json.load(open(replay))["scenario"]
            c = sc["c"]
            exp = "ValueError" if c["strat"] == "groupby" and not c["contig"] else "ok"
            _judge(ctx, work, [docconfig.run_one({"id": 0, "c": c, "expected": exp})])
            ctx.note_case("a", True); ctx.note_case("b", True); ctx.sample({"replayed": c}); ctx.rule = "replay"
            return ctx.finish()
        mc = dict(REDUCED["quick"]); mc.update(INTENDED)
        res = family.model_check(ctx, work, "DocConfig", mc, ["OnlyDocumentedRefusal", "SkeletonClosed"], [], "intended")
        if res.violated:
            raise MachineryError("intended DocConfig model violates %s" % res.violated)
        g1 = dict(REDUCED[tier]); g1.update(IMPL)
        got = family.generate(ctx, work, "DocConfig", g1, "reduced")
        ctx.extra["reduced_product_scenarios"] = len(got)
        # a small exhaustive family around caller-owned objects used before and spanning header rows
        g3 = dict(REDUCED["quick"]); g3.update(IMPL)
        g3.update(Paths={"single"}, Strats={"plain", "subpb", "pageby"}, HdrModes={"default", "multi2"}, NSet={5}, MSet={2, 4}, ShapeSet={"scalar"},
                  KindSet={"str"}, SizeSet={"int"}, FootSet={"none"}, BoolSet={False}, PriorSet={"none", "narrow"}, VocabSet={"basic"})
        got += family.generate(ctx, work, "DocConfig", g3, "objects")
        g2 = dict(FULL); g2.update(IMPL)
        got += family.generate(ctx, work, "DocConfig", g2, "sampled", simulate_num=PLAN[tier]["sim"], depth=40, seed=seed)
        items = []
        seen = set()
        for s in got:
            key = json.dumps(s["cfg"], sort_keys=True)
            if key in seen:
                continue
            seen.add(key)
            c = s["cfg"]
            items.append({"id": len(items), "c": c, "expected": "ValueError" if c["strat"] == "groupby" and not c["contig"] else "ok", "pred": s["outcome"]})
        # encode and judge in batches; only the head of each event stream is kept afterwards (a thorough run
        # holds tens of thousands of documents)
        recs = []
        for k0 in range(0, len(items), 2000):
            part = pmap(docconfig.run_one, items[k0:k0 + 2000], chunk=4)
            _judge(ctx, work, part)
            for r in part:
                r["nev"] = len(r["ev"])
                r["ev"] = r["ev"][:8]
            recs.extend(part)
        nd = 0
        notacc = 0
        for it, r in zip(items, recs):
            ctx.note_case(json.dumps(it["c"], sort_keys=True), it["c"]["n"] > 0)
            o = r["c"]["outcome"]
            if o == "not-accepted":
                notacc += 1
                continue
            o2 = "crash" if o.startswith("crash") else o
            if o2 != it["pred"]:
                nd += 1
                ctx.model_drift("C01 %s: model predicts %s, observed %s %s" % (json.dumps(it["c"], sort_keys=True), it["pred"], o, r.get("msg", "")[:100]))
        ctx.extra["conformance"] = {"compared_with_model_prediction": len(recs) - notacc, "drift": nd}
        ctx.extra["configurations_refused_at_construction"] = notacc
        # vacuity guard: every configuration the generator draws is meant to be accepted; a harness mistake that makes the
        # builder raise would otherwise silently remove documents from the check (it did once: a NameError in the builder
        # dropped every document with a footnote or source for a few hours, section 12.6)
        if notacc > max(5, len(recs) // 50):
            raise MachineryError("%d of %d generated configurations were refused at construction" % (notacc, len(recs)))
        ctx.extra["paths_covered"] = sorted({r["cfg"]["path"] for r in recs})
        ctx.extra["refusals_ValueError"] = sum(1 for r in recs if r["c"]["outcome"] == "ValueError")
        if len(ctx.extra["paths_covered"]) < 3 or ctx.extra["refusals_ValueError"] == 0:
            raise MachineryError("vacuity guard: paths %s, refusals %d" % (ctx.extra["paths_covered"], ctx.extra["refusals_ValueError"]))
        for r in recs[:2] + recs[-2:]:
            ctx.sample({"cfg": r["cfg"], "outcome": r["c"]["outcome"], "events": r["nev"], "first_events": r["ev"][:8]})
        ctx.rule = ("configurations generated by TLC from spec/DocConfig.tla: the reduced product (two values per dimension, exhaustive) and %d configurations drawn "
                    "by -simulate from the full product of 22 dimensions (path, strategy, header mode, rows, columns, component presence, as_table flags, placements, "
                    "paper, nrow, attribute shape, font size, cell kind, group_by contiguity, colour, sections); non-trivial = at least one data row" % PLAN[tier]["sim"])
        ctx.assumptions = ["lexical validity is decided by the reader's lexer and asserted by the acceptor as 'no lexical error event'"]
        return ctx.finish()
    finally:
        work.close()
