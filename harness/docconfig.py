"""Driver for C01: concretise a configuration of spec/DocConfig.tla, encode it, extract the
structural event stream for spec/RtfStream.tla."""
from __future__ import annotations

import os
import shutil
import tempfile

from common import setup_path

setup_path()
import colordocs  # noqa: E402

PAPER = {"letter": {}, "landscape": {"orientation": "landscape"}, "a4": {"width": 8.27, "height": 11.69},
         "custom": {"width": 7.3, "height": 9.45, "margin": [0.9, 0.8, 1.1, 0.7, 0.6, 0.55], "col_width": 5.1}}


def _cells(kind, n, j, sec):
    out = []
    for r in range(n):
        if kind == "int":
            out.append(r * 7 + j)
        elif kind == "float":
            out.append((r + 1) * 1.25 + j)
        elif kind == "null":
            out.append(None if (r + j) % 3 == 0 else "s%d r%d c%d" % (sec, r, j))
        elif kind == "blanks":
            out.append("  lead %d.%d " % (r, j) if r % 2 else "trail %d.%d   " % (r, j))
        elif kind == "field":
            out.append("Page \\chpgn of {\\field{\\*\\fldinst NUMPAGES }}" if r % 2 == 0 else "x^2 >= \\alpha_%d" % r)
        elif kind == "astral":
            out.append(["\U0001F600 smile %d" % r, "math \U0001D6FC\U0001D6FD", "cjk \U00020000 ext-b", "plane16 \U0010FFFD", "bmp \u2265 \uffe5 \u8000"][(r + j) % 5])
        elif kind == "long":
            out.append(("word%d " % r) * (3 + 9 * ((r + j) % 4)))
        else:
            out.append("s%d r%d c%d" % (sec, r, j))
    return out


VJ = ["top", "center", "bottom", "merge_first", "merge_rest", ""]
BS = ["single", "double", "thick", "dotted", "dashed", "small-dash", "dash-dotted", "dash-dot-dotted", "triple", "wavy", "double-wavy",
      "striped", "embossed", "engraved", "frame", ""]
TJ = ["l", "c", "r", "d", "j"]


def _section(c, sec):
    import polars as pl
    import rtflite as rtf
    n, m, strat = c["n"], c["m"], c["strat"]
    data = {}
    types = {}
    pbk = {}
    half = max(1, (n + 1) // 2)
    import datetime as _dt
    kt = c.get("keytype", "str")

    def key(prefix, g):
        # the value of a grouping column for group g (1, 2, 3): a string, an integer, a date, or null for group 1
        if kt == "int":
            return 100 + g
        if kt == "date":
            return _dt.date(2024, 1, g)
        if kt == "null" and g == 1:
            return None
        return "%s%d" % (prefix, g)

    def names(cols):
        # how the caller spells page_by / subline_by / group_by
        sq = c.get("seq", "list")
        return tuple(cols) if sq == "tuple" else (cols[0] if sq == "str" and len(cols) == 1 else list(cols))
    if strat in ("pageby", "pageby_np_col", "pageby_np_first", "subpb"):
        data["PB"] = [key("grp", 1 if r < half else 2) for r in range(n)]
        pbk["page_by"] = names(["PB"])
        if strat == "pageby_np_col":
            pbk.update(new_page=True, pageby_row="column")
        elif strat == "pageby_np_first":
            pbk.update(new_page=True, pageby_row="first_row")
    if strat in ("subline", "subpb"):
        data["SB"] = [key("sub", 1 if r < half else 2) for r in range(n)]
        pbk["subline_by"] = names(["SB"])
    if strat in ("gbpb", "gbsub"):
        # group_by with contiguous keys next to a page_by / subline_by column whose key comes back (A, B, A): legal -
        # only group_by keys have to be contiguous
        third = max(1, (n + 2) // 3)
        col = "PB" if strat == "gbpb" else "SB"
        data[col] = [key("grp", 1 if (r // third) % 2 == 0 else 2) for r in range(n)]
        data["GB"] = [key("g", 1 + r // third) if kt not in ("date",) else _dt.date(2024, 2, 1 + r // third) for r in range(n)]
        pbk["page_by" if strat == "gbpb" else "subline_by"] = names([col])
        pbk["group_by"] = names(["GB"])
    if strat == "groupby":
        if c["contig"]:
            data["GB"] = [key("g", 1 if r < half else 2) for r in range(n)]
        else:
            data["GB"] = [key("g", 1 if r % 2 == 0 else 2) for r in range(n)]
        pbk["group_by"] = names(["GB"])
        if c["kind"] == "null" and n >= 3:
            # hierarchical group_by with nulls in two different groups separated by a null-free group
            third = max(1, n // 3)
            data["GB"] = [key("g", 1 if r < third else 2 if r < 2 * third else 3) for r in range(n)] if c["contig"] else data["GB"]
            data["GB2"] = [None if (r < third or r >= 2 * third) else "u" for r in range(n)]
            pbk["group_by"] = ["GB", "GB2"]
    for j in range(m):
        data["V%d" % j] = _cells(c["kind"], n, j, sec)
        types["V%d" % j] = {"int": pl.Int64, "float": pl.Float64}.get(c["kind"], pl.Utf8)
    ktypes = {"int": pl.Int64, "date": pl.Date}
    for gcol in ("PB", "SB", "GB"):
        if gcol in data and kt in ktypes:
            types[gcol] = ktypes[kt]
    schema = {k: types.get(k, pl.Utf8) for k in data}
    df = pl.DataFrame(data, schema=schema)
    ncols = len(data)
    bk = dict(pbk)
    fmt_vals = ["", "b", "i", "bi"]
    if c["shape"] == "col":
        bk["text_format"] = [[fmt_vals[j % 4] for j in range(ncols)]]
        bk["text_justification"] = [["l", "c", "r"][j % 3] for j in range(ncols)]
    elif c["shape"] == "matrix" and n > 0:
        bk["text_format"] = [[fmt_vals[(r + j) % 4] for j in range(ncols)] for r in range(n)]
        bk["border_top"] = [["single" if (r + j) % 2 else "" for j in range(ncols)] for r in range(n)]
    elif c["shape"] == "recycle" and n > 0:
        # patterns narrower / shorter than the table whose size does not divide it (recycled with a partial repeat)
        w = next((k for k in (2, 3, 4) if k < ncols and ncols % k), 1)
        hh = next((k for k in (2, 3, 4) if k < n and n % k), 1)
        bk["text_format"] = [[fmt_vals[j % 4] for j in range(w)]]
        bk["border_bottom"] = [["", "single", "double", "dashed"][:w]] if w > 1 else "single"
        bk["border_top"] = [["" if r % 2 else "single"] for r in range(hh)]
        bk["border_left"] = [[["single", ""][(r + j) % 2] for j in range(w)] for r in range(hh)]
    else:
        bk["text_format"] = "b"
    full = c.get("vocab") == "full"
    if full and n > 0:
        # every legal keyword of the enumerated cell options occurs somewhere in the table (cycled over the cells)
        bk["cell_vertical_justification"] = [[VJ[(r * ncols + j) % len(VJ)] for j in range(ncols)] for r in range(n)]
        bk["border_right"] = [[BS[(r * ncols + j) % len(BS)] for j in range(ncols)] for r in range(n)]
        if "text_justification" not in bk:
            bk["text_justification"] = [[TJ[(r + 2 * j) % len(TJ)] for j in range(ncols)] for r in range(n)]
        bk["cell_justification"] = [["l", "c", "r"][sec % 3]]
    if c["size"] == "half":
        bk["text_font_size"] = 10.5
    if c["colour"]:
        bk["text_color"] = "red" if c["shape"] != "col" else [["red", "blue", "darkgreen"][j % 3] for j in range(ncols)]
    if c["hdr"] == "off":
        bk["as_colheader"] = False
    body = rtf.RTFBody(**bk)
    displayed = [k for k in data if not (k == "SB" or (k == "PB" and strat in ("pageby", "pageby_np_first", "subpb", "gbpb")))]
    hk = {"text_font_size": 10.5} if c["size"] == "half" else {}
    if full:
        hk["cell_vertical_justification"] = [[VJ[(j + 3) % len(VJ)] for j in range(max(1, len(displayed)))]]
        hk["border_left"] = [[BS[(j + 5) % len(BS)] for j in range(max(1, len(displayed)))]]
    if c["hdr"] == "explicit":
        hdr = [rtf.RTFColumnHeader(text=["H%d" % j for j in range(len(displayed))], **hk)]
    elif c["hdr"] == "multi":
        hdr = [rtf.RTFColumnHeader(text=["Top"], col_rel_width=[1], **hk), rtf.RTFColumnHeader(text=["H%d" % j for j in range(len(displayed))], **hk)]
    elif c["hdr"] == "multi2" and len(displayed) >= 2:
        # a spanning top row with two cells and a width list of its own, shorter than the table
        hdr = [rtf.RTFColumnHeader(text=["Left group", "Right group"], col_rel_width=[2, 2], **hk),
               rtf.RTFColumnHeader(text=["H%d" % j for j in range(len(displayed))], **hk)]
    elif c["hdr"] == "multi2":
        hdr = [rtf.RTFColumnHeader(text=["Top"], col_rel_width=[1], **hk), rtf.RTFColumnHeader(text=["H%d" % j for j in range(len(displayed))], **hk)]
    elif c["hdr"] == "none":
        hdr = []
    else:
        hdr = None      # default [RTFColumnHeader()]
    return df, body, hdr


def build(c, tmp):
    full = c.get("vocab") == "full"
    n, m = c["n"], c["m"]
    import rtflite as rtf
    sz = {"text_font_size": 10.5} if c["size"] == "half" else {}
    col = {"text_color": "blue"} if c["colour"] else {}
    kw = {}
    kw["rtf_title"] = rtf.RTFTitle(text=["Title line", "second \\alpha line"], **sz, **col) if c["title"] else None
    if c["subline"]:
        kw["rtf_subline"] = rtf.RTFSubline(text="Subline text", **sz)
    if c["pghdr"]:
        kw["rtf_page_header"] = rtf.RTFPageHeader()
    if c["pgftr"]:
        kw["rtf_page_footer"] = rtf.RTFPageFooter(text=["Footer line 1", "line 2"], **sz)
    page = rtf.RTFPage(nrow=c["nrow"], page_title=c["ptitle"], page_footnote=c["pfoot"], page_source=c["psrc"], **PAPER[c["paper"]])
    kw["rtf_page"] = page
    if c["path"] == "figure":
        if c["foot"] != "none":
            kw["rtf_footnote"] = rtf.RTFFootnote(text=["Foot 1", "Foot 2"], as_table=False, **sz)
        if c["src"] != "none":
            kw["rtf_source"] = rtf.RTFSource(text="Source", as_table=False)
        figs = [colordocs.tiny_png(os.path.join(tmp, "f%d.png" % i), w=2 + i, h=3) for i in range(max(1, min(c["n"], 4)))]
        return rtf.RTFDocument(rtf_figure=rtf.RTFFigure(figures=figs, fig_width=[2.0, 3.3], fig_height=1.5), **kw)
    if c["foot"] != "none":
        fz = dict(sz)
        if full and c["foot"] == "table":
            fz["cell_vertical_justification"] = VJ[(n + m) % len(VJ)]
            fz["border_right"] = BS[(n + 3 * m) % len(BS)]
        kw["rtf_footnote"] = rtf.RTFFootnote(text=["Foot 1", "Foot 2 x_1"], as_table=(c["foot"] == "table"), **fz)
    if c["src"] != "none":
        sz2 = dict(sz)
        if full and c["src"] == "table":
            sz2["cell_vertical_justification"] = VJ[(n + m + 4) % len(VJ)]
        kw["rtf_source"] = rtf.RTFSource(text="Source", as_table=(c["src"] == "table"), **sz2)
    if c["path"] == "single":
        df, body, hdr = _section(c, 1)
        if hdr is not None:
            kw["rtf_column_header"] = hdr
        if c.get("prior") == "narrow" and c["m"] >= 2 and c["strat"] == "plain" and c["shape"] == "scalar":
            # the caller's body object (with the one-value width shorthand) was used for a NARROWER table before
            import polars as pl
            body = rtf.RTFBody(col_rel_width=[1], text_format="b", **({"text_font_size": 10.5} if c["size"] == "half" else {}))
            narrow = df.select(df.columns[:-1])
            rtf.RTFDocument(df=narrow, rtf_body=body, rtf_title=None).rtf_encode()
        return rtf.RTFDocument(df=df, rtf_body=body, **kw)
    dfs, bodies, hdrs = [], [], []
    for s in range(1, c["nsec"] + 1):
        c2 = dict(c)
        c2["m"] = c["m"] + (s % 2)          # sections with different column counts
        df, body, hdr = _section(c2, s)
        dfs.append(df)
        bodies.append(body)
        hdrs.append(hdr if hdr else ([None] if hdr == [] else [rtf.RTFColumnHeader()]))
    return rtf.RTFDocument(df=dfs, rtf_body=bodies, rtf_column_header=hdrs, **kw)


def run_one(sc):
    from rtfreader import parse
    c = sc["c"]
    rec = {"id": sc["id"], "cfg": c, "ev": [], "c": {"outcome": "ok", "expected": sc.get("expected", "ok"), "lexerrs": 0, "trailing": 0, "leading": 0}}
    tmp = tempfile.mkdtemp(prefix="rtflite-verif-c01-")
    try:
        try:
            doc = build(c, tmp)
        except Exception as ex:  # noqa
            rec["c"]["outcome"] = "not-accepted"      # refused at construction: outside the quantifier
            rec["construct_error"] = type(ex).__name__ + ":" + str(ex)[:200]
            return rec
        try:
            text = doc.rtf_encode()
        except ValueError as ex:
            rec["c"]["outcome"] = "ValueError"
            rec["msg"] = str(ex)[:200]
            return rec
        except Exception as ex:  # noqa
            rec["c"]["outcome"] = "crash:" + type(ex).__name__
            rec["msg"] = str(ex)[:300]
            return rec
    finally:
        shutil.rmtree(tmp, ignore_errors=True)
    d = parse(text)
    ev = []
    for e in d.events:
        if e[0] == "t":
            continue
        if e[0] == "K":
            if e[1] == "rtf":
                ev.append(["K", "rtf", e[2]])
            continue
        ev.append(list(e))
    rec["ev"] = ev
    rec["c"].update(lexerrs=len(d.lexerrs), trailing=d.struct["trailing"], leading=d.struct["leading"])
    rec["lex"] = d.lexerrs[:5]
    rec["size"] = len(text)
    return rec
