"""Driver for C09 (cell formatting follows the data cell)."""
from __future__ import annotations

import re

from common import setup_path

setup_path()

COLORS = ["red", "blue", "darkgreen", "orange", "purple"]
RGB = {(255, 0, 0): "red", (0, 0, 255): "blue", (0, 100, 0): "darkgreen", (255, 165, 0): "orange", (160, 32, 240): "purple"}
STYLES = ["single", "double", "dotted", "dashed", ""]
ATTRS = {
    "text_font": list(range(1, 11)),
    "text_font_size": [6, 7, 8, 9, 10, 11, 12, 14],
    "text_format": ["", "b", "i", "u", "s", "bi"],
    "text_color": COLORS, "text_background_color": COLORS,
    "border_color_left": COLORS, "border_color_right": COLORS, "border_color_top": COLORS, "border_color_bottom": COLORS,
    "text_justification": ["l", "c", "r", "j"],
    "text_indent_first": [0, 120, 360, 720], "text_indent_left": [0, 120, 360, 720], "text_indent_right": [0, 120, 360, 720],
    "text_space_before": [15, 30, 60, 120], "text_space_after": [15, 30, 60, 120],
    "text_space": [1, 2, 3], "border_width": [15, 30, 45],
    "cell_vertical_justification": ["top", "center", "bottom"],
    "cell_height": [0.15, 0.3, 0.5], "cell_justification": ["l", "c", "r"],
    "text_hyphenation": [True, False],
    "border_left": STYLES, "border_right": STYLES, "border_top": STYLES, "border_bottom": STYLES,
}
ROWLEVEL = ("cell_height", "cell_justification")
_TAG = re.compile(r"^d(\d{3})$")


def group_pos(c):
    if c["gpos"] == "first":
        return 0
    if c["gpos"] == "last":
        return c["m"]
    return 1 if c["m"] // 2 == 0 else c["m"] // 2


def value_matrix(c, norig):
    K = len(ATTRS[c["attr"]])
    legal = ATTRS[c["attr"]]
    rl = c["attr"] in ROWLEVEL

    def v(r0, c0):
        if c["shape"] == "scalar":
            return legal[c["salt"] % K]
        if c["shape"] == "col":
            return legal[(c["salt"] if rl else 3 * c0 + c["salt"]) % K]
        return legal[((5 * r0 + c["salt"]) if rl else (5 * r0 + 3 * c0 + c["salt"])) % K]
    if c["shape"] == "scalar":
        return v(0, 0)
    if c["shape"] == "col":
        return [[v(0, c0) for c0 in range(norig)]]
    return [[v(r0, c0) for c0 in range(norig)] for r0 in range(c["n"])]


def group_indices(c):
    """Original 0-based positions of the group columns (must agree with CellCfg!GroupIdx)."""
    ng = {"plain": 0, "pb2span": 2, "subpb": 2}.get(c["strat"], 1)
    if ng == 0:
        return []
    p1 = group_pos(c)
    if ng == 1:
        return [p1]
    norig = c["m"] + 2
    return [p1, min(p1 + (2 if c.get("g2") == "apart" else 1), norig - 1)]


def build(c, unpaginated=False):
    import polars as pl
    import rtflite as rtf
    n, m = c["n"], c["m"]
    dcols = ["~D%d~" % k for k in range(1, m + 1)]
    gidx = group_indices(c)
    gnames = ["~G~", "~G2~"][:len(gidx)]
    norig = m + len(gidx)
    cols = []
    di = 0
    for pos in range(norig):
        if pos in gidx:
            cols.append(gnames[gidx.index(pos)])
        else:
            cols.append(dcols[di])
            di += 1
    data = {}
    gi = 0
    gvals = []
    for r in range(n):
        if c["grp"][r]:
            gi += 1
        gvals.append(gi)
    for k, x in enumerate(dcols):
        data[x] = [("d%03d" % (r + 1)) if k == 0 else "v%d" % (r + 1) for r in range(n)]
    strat = c["strat"]
    if strat == "subline":
        data["~G~"] = ["~S%d~" % g for g in gvals]
    elif strat == "subpb":
        data["~G~"] = ["~S%d~" % g for g in gvals]
        data["~G2~"] = ["~P1.1~"] * n
    elif strat == "pb2span":
        data["~G~"] = ["~P1.%d~" % g for g in gvals]
        data["~G2~"] = ["~P2.%d~" % g for g in gvals]
    elif strat != "plain":
        data["~G~"] = ["~P1.%d~" % g for g in gvals]
    df = pl.DataFrame({x: data[x] for x in cols}, schema={x: pl.Utf8 for x in cols})
    kw = {c["attr"]: value_matrix(c, len(cols))}
    nrow = 1000
    if strat == "plain":
        nrow = 1000 if unpaginated else c["cap"]
    elif strat == "pbnp":
        kw.update(page_by=["~G~"], new_page=not unpaginated, pageby_row="first_row")
    elif strat == "pbcol":
        kw.update(page_by=["~G~"], new_page=True, pageby_row="column")
    elif strat == "pbspan":
        kw.update(page_by=["~G~"], new_page=False)
        nrow = 1000 if unpaginated else (c["cap"] if c["cap"] < 100 else 1000)
    elif strat == "pb2span":
        kw.update(page_by=["~G~", "~G2~"], new_page=False)
        nrow = 1000 if unpaginated else (c["cap"] if c["cap"] < 100 else 1000)
    elif strat == "subline":
        kw.update(subline_by=["~G~"])
    elif strat == "subpb":
        kw.update(subline_by=["~G~"], page_by=["~G2~"])
    body = rtf.RTFBody(**kw)
    doc = rtf.RTFDocument(df=df, rtf_page=rtf.RTFPage(nrow=nrow), rtf_body=body, rtf_title=None, rtf_column_header=[])
    removed = strat in ("pbspan", "pbnp", "subline", "pb2span", "subpb")
    return doc, (len(cols) - len(gidx) if removed else len(cols))


def _cell_value(attr, doc, row, k, ncell):
    cell = row.cells[k]
    d = row.defs[k] if k < len(row.defs) else {"borders": {}, "valign": None}
    run = cell.runs[0] if cell.runs else {}
    ppr = cell.ppr

    def colour(idx):
        if not idx:
            return ""
        if doc.colors is None or idx >= len(doc.colors) or doc.colors[idx] is None:
            return "?%s" % idx
        return RGB.get(tuple(doc.colors[idx]), "?rgb")

    def brd(side, i):
        b = d["borders"].get(side)
        return None if b is None else b[i]
    if attr == "text_font":
        return (run.get("f") if run.get("f") is not None else -9) + 1
    if attr == "text_font_size":
        return (run.get("fs") or 0) / 2
    if attr == "text_format":
        s = ""
        for flag, ch in (("b", "b"), ("i", "i"), ("strike", "s"), ("ul", "u")):
            if run.get(flag):
                s += ch
        return "".join(sorted(s))
    if attr == "text_color":
        return colour(run.get("cf"))
    if attr == "text_background_color":
        return colour(run.get("chcbpat"))
    if attr == "text_justification":
        return ppr.get("just")
    if attr == "text_indent_first":
        return ppr.get("fi")
    if attr == "text_indent_left":
        return ppr.get("li")
    if attr == "text_indent_right":
        return ppr.get("ri")
    if attr == "text_space_before":
        return ppr.get("sb")
    if attr == "text_space_after":
        return ppr.get("sa")
    if attr == "text_space":
        return 1 if ppr.get("sl") is None else ppr.get("sl") / 240
    if attr == "text_hyphenation":
        return ppr.get("hyphpar") == 1
    if attr in ("border_left", "border_right", "border_top", "border_bottom"):
        v = brd(attr[7], 0)
        return v or ""
    if attr == "border_width":
        return brd("l", 1)
    if attr.startswith("border_color_"):
        return colour(brd(attr[13], 2))
    if attr == "cell_vertical_justification":
        return d.get("valign")
    if attr == "cell_height":
        g = row.tr.get("trgaph")
        for h in ATTRS["cell_height"]:
            if g == int(round(h * 1440) / 2):
                return h
        return g
    if attr == "cell_justification":
        return row.tr.get("just")
    return None


def _norm(attr, v):
    if attr == "text_format" and isinstance(v, str):
        return "".join(sorted(v))
    return v


def observe(text, c, ndisp):
    from rtfreader import parse
    doc = parse(text)
    attr = c["attr"]
    legal = [_norm(attr, x) for x in ATTRS[attr]]
    cells = {}
    for pg in doc.pages:
        rows = []
        for b in pg.blocks:
            if b.kind != "row":
                continue
            tag = 0
            for cl in b.cells:
                mm = _TAG.match(cl.text)
                if mm:
                    tag = int(mm.group(1))
            if tag:
                rows.append((tag, b))
        for pos, (tag, b) in enumerate(rows):
            for k in range(len(b.cells)):
                v = _cell_value(attr, doc, b, k, len(b.cells))
                try:
                    idx = legal.index(_norm(attr, v))
                except ValueError:
                    idx = -1
                skip = False
                if attr == "border_top" and pos == 0:
                    skip = True
                if attr == "border_bottom" and pos == len(rows) - 1:
                    skip = True
                if attr in ("border_right", "border_color_right") and k != len(b.cells) - 1:
                    skip = True
                if attr in ROWLEVEL and k != 0:
                    skip = False
                cells[(tag, k)] = (idx, skip, repr(v)[:30])
    return cells


def run_one(sc):
    c = sc["c"]
    rec = {"id": sc["id"], "c": c, "ev": [], "outcome": "ok"}
    try:
        doc, ndisp = build(c)
        text = doc.rtf_encode()
        obs = observe(text, c, ndisp)
        if c["strat"] in ("plain", "pbnp", "pbspan", "pb2span"):
            doc1, _ = build(c, unpaginated=True)
            obs1 = observe(doc1.rtf_encode(), c, ndisp)
        else:
            obs1 = None
    except Exception as ex:
        rec["outcome"] = "error:" + type(ex).__name__ + ":" + str(ex)[:200]
        return rec
    ev = []
    for (tag, k) in sorted(obs):
        idx, skip, raw = obs[(tag, k)]
        idx1 = obs1.get((tag, k), (-2, False, ""))[0] if obs1 is not None else idx
        ev.append({"r": tag, "j": k, "idx": idx, "idx1": idx1, "skip": skip, "raw": raw})
    rec["ev"] = ev
    if sc.get("pred") is not None:
        pred = {(e["r"], e["j"]): e["idx"] for e in sc["pred"]}
        for e in ev:
            if not e["skip"] and pred.get((e["r"], e["j"])) != e["idx"]:
                rec["drift"] = {"cell": [e["r"], e["j"]], "pred": pred.get((e["r"], e["j"])), "obs": e["idx"]}
                break
    return rec
