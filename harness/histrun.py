"""Executes operation histories against the real library, one forked child per history.

The parent (a forkserver worker) only IMPORTS rtflite/polars and never runs a polars
operation, so os.fork() is safe (fork after polars work deadlocks the child) and every
history starts from the state of a freshly imported library."""
from __future__ import annotations

import hashlib
import json
import os
import select
import shutil
import signal
import subprocess
import sys
import tempfile
import time

from common import setup_path, REPO_SRC

setup_path()
import colordocs  # noqa: E402  (imports nothing from rtflite at module level)


def _digest(s):
    return hashlib.sha1(s.encode("utf-8")).hexdigest()


def _exec_history(prog, keep_text=False):
    """Runs in the child.  prog = [[kind, doc], ...]"""
    import rtflite as rtf
    tmp = tempfile.mkdtemp(prefix="rtflite-verif-hist-")
    objs = {}
    shared = {}
    out = []

    def construct(dd):
        fam = colordocs.SHARED_FAMILY.get(dd)
        if fam:
            if fam not in shared:
                shared[fam] = colordocs.new_shared_body(fam)
            objs[dd] = colordocs.build_pool_doc(dd, shared_body=shared[fam], tmpdir=tmp)
        elif dd in colordocs.SHARED_SUBLINE:
            if "subline" not in shared:
                shared["subline"] = colordocs.new_shared_subline()
            objs[dd] = colordocs.build_pool_doc(dd, tmpdir=tmp, shared_subline=shared["subline"])
        elif dd in colordocs.SHARED_PAGE:
            if "page" not in shared:
                shared["page"] = colordocs.new_shared_page()
            objs[dd] = colordocs.build_pool_doc(dd, tmpdir=tmp, shared_page=shared["page"])
        else:
            objs[dd] = colordocs.build_pool_doc(dd, tmpdir=tmp)
    try:
        for kind, dd in prog:
            if kind == "construct":
                construct(dd)
                out.append({"kind": "construct", "doc": dd, "outcome": "construct", "digest": "", "dfsame": True})
                continue
            if dd not in objs:
                construct(dd)
            doc = objs[dd]
            dfs = doc.df if isinstance(doc.df, list) else ([doc.df] if doc.df is not None else [])
            before = [d.clone() for d in dfs]
            try:
                text = doc.rtf_encode()
                outcome, dg = "ok", _digest(text)
            except ValueError as ex:
                text, outcome, dg = None, "ValueError", ""
            except Exception as ex:  # noqa
                text, outcome, dg = None, "error:" + type(ex).__name__, ""
            same = all(a.equals(b) for a, b in zip(before, dfs))
            e = {"kind": "encode", "doc": dd, "outcome": outcome, "digest": dg, "dfsame": bool(same)}
            if keep_text and text is not None:
                e["text"] = text
            out.append(e)
    finally:
        shutil.rmtree(tmp, ignore_errors=True)
    return out


def run_history(item, timeout=60):
    """Fork a child for one history; returns {"id", "prog", "ev"} (ev = None on a hung child)."""
    import rtflite  # noqa: F401  make sure the library is imported before forking (import only)
    r, w = os.pipe()
    pid = os.fork()
    if pid == 0:
        try:
            os.close(r)
            res = _exec_history(item["prog"])
            with os.fdopen(w, "w") as f:
                json.dump(res, f)
        except BaseException as ex:  # noqa
            try:
                os.write(w, json.dumps({"child_error": repr(ex)[:300]}).encode())
            except Exception:
                pass
        finally:
            os._exit(0)
    os.close(w)
    buf = b""
    t0 = time.time()
    ok = True
    while True:
        left = timeout - (time.time() - t0)
        if left <= 0:
            ok = False
            break
        rl, _, _ = select.select([r], [], [], left)
        if not rl:
            ok = False
            break
        chunk = os.read(r, 65536)
        if not chunk:
            break
        buf += chunk
    os.close(r)
    if not ok:
        try:
            os.kill(pid, signal.SIGKILL)
        except Exception:
            pass
    os.waitpid(pid, 0)
    ev = None
    if ok and buf:
        try:
            ev = json.loads(buf.decode())
        except Exception:
            ev = None
    return {"id": item["id"], "prog": item["prog"], "ev": ev}


def fork_call(fn, args, timeout=120):
    """Runs fn(*args) in a forked child of this (import-only) process and returns its JSON-serialisable result, or None
    if the child hung or died.  Every call starts from the state of a freshly imported library."""
    import rtflite  # noqa: F401
    r, w = os.pipe()
    pid = os.fork()
    if pid == 0:
        try:
            os.close(r)
            res = fn(*args)
            with os.fdopen(w, "w") as f:
                json.dump(res, f)
        except BaseException as ex:  # noqa
            try:
                os.write(w, json.dumps({"child_error": repr(ex)[:300]}).encode())
            except Exception:
                pass
        finally:
            os._exit(0)
    os.close(w)
    buf = b""
    t0 = time.time()
    ok = True
    while True:
        left = timeout - (time.time() - t0)
        if left <= 0:
            ok = False
            break
        rl, _, _ = select.select([r], [], [], left)
        if not rl:
            ok = False
            break
        chunk = os.read(r, 65536)
        if not chunk:
            break
        buf += chunk
    os.close(r)
    if not ok:
        try:
            os.kill(pid, signal.SIGKILL)
        except Exception:
            pass
    os.waitpid(pid, 0)
    if ok and buf:
        try:
            return json.loads(buf.decode())
        except Exception:
            return None
    return None


_FRESH_CODE = r"""
import sys, json, hashlib
sys.path.insert(0, %r); sys.path.insert(0, %r)
import histrun
res = histrun._exec_history([["encode", sys.argv[1]]], keep_text=False)
print(json.dumps(res))
"""


def fresh_digest(doc):
    """Digest of the document's output in a fresh interpreter."""
    here = os.path.dirname(os.path.abspath(__file__))
    p = subprocess.run([sys.executable, "-c", _FRESH_CODE % (REPO_SRC, here), doc], stdout=subprocess.PIPE,
                       stderr=subprocess.PIPE, text=True, timeout=120, env={**os.environ, "PYTHONHASHSEED": "0"})
    if p.returncode != 0:
        raise RuntimeError("fresh run failed: " + p.stderr[-1500:])
    res = json.loads(p.stdout.strip().splitlines()[-1])
    return res[-1]
