"""Driver for the LibreOfficeConverter family (spec/Converter.tla): the real converter runs against a fake
`soffice` shell script whose behaviour the scenario fixes; the script logs its own invocations, which are
the events of the recorded trace."""
from __future__ import annotations

import os
import shutil
import stat
import tempfile
from pathlib import Path

from common import setup_path

setup_path()

FAKE = r"""#!/bin/sh
# fake LibreOffice for the verification harness: behaviour comes from the environment
D="${FAKE_SOFFICE_DIR:?}"
me=$(basename "$0")
if [ "$1" = "--version" ]; then
  echo "version $me" >> "$D/log"
  case "$FAKE_VER" in
    exit1) echo "boom" >&2; exit 1;;
    garbage) echo "OpenOffice something 4"; exit 0;;
    *) echo "LibreOffice $FAKE_VER.3.2 480(Build:2)"; exit 0;;
  esac
fi
fmt=""; out=""; inp=""
while [ $# -gt 0 ]; do
  case "$1" in
    --convert-to) fmt="$2"; shift 2;;
    --outdir) out="$2"; shift 2;;
    --*) shift;;
    *) inp="$1"; shift;;
  esac
done
n=$(cat "$D/count" 2>/dev/null || echo 0); n=$((n+1)); echo $n > "$D/count"
stem=$(basename "$inp"); stem="${stem%.*}"
echo "convert $me $stem" >> "$D/log"
beh=ok; [ "$n" = "${FAKE_BEHAT:-1}" ] && beh="${FAKE_BEH:-ok}"
produce() {
  printf 'CONVERTED:%s:' "$fmt" > "$out/$stem.$fmt"; cat "$inp" >> "$out/$stem.$fmt"
  if [ "$fmt" = html ]; then mkdir -p "$out/$stem.html_files"; printf PNG > "$out/$stem.html_files/img1.png"; fi
}
case "$beh" in
  ok) produce; exit 0;;
  fail_before) echo err >&2; exit 1;;
  fail_after) produce; echo err >&2; exit 1;;
  silent) exit 0;;
esac
exit 0
"""
SYS_PATH = "/usr/bin:/bin"


def install_fake(path):
    with open(path, "w") as f:
        f.write(FAKE)
    os.chmod(path, os.stat(path).st_mode | stat.S_IXUSR | stat.S_IXGRP | stat.S_IXOTH)


class FakeEnv:
    """Builds the directory layout of one scenario and switches PATH/HOME/cwd/environment for its duration."""

    def __init__(self, root, cv):
        self.root, self.cv = root, cv
        self.saved = {}

    def __enter__(self):
        root, cv = self.root, self.cv
        self.fake = os.path.join(root, "fake"); os.makedirs(self.fake)
        self.std = os.path.join(root, "bin_std"); os.makedirs(self.std)
        self.given = os.path.join(root, "bin_given"); os.makedirs(self.given)
        if cv["onpath"] in ("soffice", "both"):
            install_fake(os.path.join(self.std, "soffice"))
        if cv["onpath"] in ("libreoffice", "both"):
            install_fake(os.path.join(self.std, "libreoffice"))
        install_fake(os.path.join(self.given, "mysoffice"))
        path = self.std + (":" + self.given if cv["arg"] == "bare_ok" else "") + ":" + SYS_PATH
        for k, v in (("PATH", path), ("HOME", root), ("FAKE_SOFFICE_DIR", self.fake), ("FAKE_VER", cv["ver"]),
                     ("FAKE_BEH", cv["beh"]), ("FAKE_BEHAT", str(cv["behat"]))):
            self.saved[k] = os.environ.get(k)
            os.environ[k] = v
        self.cwd = os.getcwd()
        os.chdir(root)
        return self

    def arg(self):
        a = self.cv["arg"]
        return {"none": None, "abs_ok": os.path.join(self.given, "mysoffice"), "abs_missing": os.path.join(self.root, "nowhere", "soffice"),
                "rel_ok": os.path.join("bin_given", "mysoffice"), "rel_missing": os.path.join("nowhere", "soffice"),
                "bare_ok": "mysoffice", "bare_missing": "nosuchoffice-xyz", "home_ok": "~/bin_given/mysoffice"}[a]

    def events(self):
        p = os.path.join(self.fake, "log")
        ev = []
        if os.path.exists(p):
            for line in open(p).read().splitlines():
                w = line.split()
                exe = "given" if w[1] == "mysoffice" else w[1]
                if w[0] == "version":
                    ev.append(["version", exe])
                else:
                    ev.append(["convert", exe, {"a": 1, "b": 2}.get(w[2], 0)])
        return ev

    def __exit__(self, *a):
        if not self.saved:
            return
        os.chdir(self.cwd)
        for k, v in list(self.saved.items()):
            if v is None:
                os.environ.pop(k, None)
            else:
                os.environ[k] = v
        self.saved = {}


def run_one(item):
    """One scenario of Converter.tla on the real LibreOfficeConverter."""
    from rtflite.convert import LibreOfficeConverter
    cv = item["cv"]
    root = tempfile.mkdtemp(prefix="rtflite-verif-conv-")
    rec = {"id": item["id"], "cv": cv}
    try:
        with FakeEnv(root, cv) as env:
            ind = os.path.join(root, "in"); os.makedirs(ind)
            names = ["a", "b"][: 2 if cv["op"] == "batch2" else 1]
            for i, nm in enumerate(names, 1):
                if cv["inmiss"] != i:
                    with open(os.path.join(ind, nm + ".rtf"), "w") as f:
                        f.write("{\\rtf1 %s}" % nm)
            outd = os.path.join(root, "out")
            if cv["outdir"] == "present":
                os.makedirs(outd)
            if cv["pre"]:
                with open(os.path.join(outd, names[cv["pre"] - 1] + ".pdf"), "w") as f:
                    f.write("OLD")
            obs = {"ctor": "", "result": "not-run", "outfiles": ["absent", "absent"], "exe_is_file": False, "returned_ok": False}
            conv = None
            try:
                conv = LibreOfficeConverter(executable_path=env.arg()) if cv["arg"] != "none" else LibreOfficeConverter()
                obs["ctor"] = "constructed"
                obs["exe_is_file"] = Path(conv.executable_path).is_file()
            except Exception as ex:  # noqa
                obs["ctor"] = type(ex).__name__
            if conv is not None:
                paths = [os.path.join(ind, nm + ".rtf") for nm in names]
                if cv["op"] == "single":
                    arg = Path(paths[0])
                elif cv["op"] == "single_str":
                    arg = paths[0]
                else:
                    arg = [Path(paths[0]), paths[1]]
                try:
                    r = conv.convert(arg, outd, format="pdf", overwrite=cv["overwrite"])
                    want = [Path(outd) / (nm + ".pdf") for nm in names]
                    if isinstance(r, Path):
                        obs["result"] = "path"
                        obs["returned_ok"] = (r == want[0])
                    elif isinstance(r, list):
                        obs["result"] = "list"
                        obs["returned_ok"] = (list(r) == want)
                    else:
                        obs["result"] = "other:" + type(r).__name__
                except Exception as ex:  # noqa
                    obs["result"] = type(ex).__name__
            for i, nm in enumerate(["a", "b"]):
                p = os.path.join(outd, nm + ".pdf")
                if os.path.isfile(p):
                    obs["outfiles"][i] = "old" if open(p, "rb").read() == b"OLD" else "new"
            obs["outdir_exists"] = os.path.isdir(outd)
            rec["ev"] = env.events()
            rec["obs"] = obs
        return rec
    finally:
        shutil.rmtree(root, ignore_errors=True)
