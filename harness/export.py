"""Driver for C18 (exports are all-or-nothing and leave no debris).
No source hooks: sys.settrace injects the fault, sys.addaudithook records file-system events."""
from __future__ import annotations

import contextlib
import hashlib
import io
import os
import shutil
import sys
import tempfile
from pathlib import Path

from common import setup_path

setup_path()

_REC = {"on": False, "events": [], "fail_at": 0, "count": 0, "fired": False}
_HOOKED = {"done": False}


class InjectedBase(BaseException):
    pass


class InjectedExc(Exception):
    pass


class ConverterBoom(RuntimeError):
    pass


class InjectedOSError(OSError):
    pass


def _audit(event, args):
    if not _REC["on"]:
        return
    n0 = len(_REC["events"])
    _audit_record(event, args)
    if len(_REC["events"]) > n0 and _REC["fail_at"]:
        # count file-system operations other than removals; make the fail_at-th one raise
        op, path = _REC["events"][-1]
        # only operations of the encoding/conversion phase: inside the private temporary directory or
        # creating the parent directory.  Touching the target (the final move) or the resource folder
        # beside it is the finalisation step, which the property's fault model does not cover.
        rp = os.path.realpath(path)
        in_scope = rp.startswith(_REC["tmp_prefix"]) or (op == "mkdir" and _REC["target_real"].startswith(rp + os.sep))
        if op != "remove" and in_scope:
            _REC["count"] += 1
            if _REC["count"] == _REC["fail_at"] and not _REC["fired"]:
                _REC["fired"] = True
                raise InjectedOSError("injected at file-system operation %d (%s)" % (_REC["fail_at"], event))


def _audit_record(event, args):
    try:
        if event == "open":
            path, mode, flags = args[0], args[1], args[2]
            w = (isinstance(mode, str) and any(c in mode for c in "wax+")) or (isinstance(flags, int) and flags & (os.O_WRONLY | os.O_RDWR | os.O_CREAT))
            if w and isinstance(path, (str, bytes, os.PathLike)):
                _REC["events"].append(("open_w", os.fspath(path)))
        elif event == "os.mkdir":
            _REC["events"].append(("mkdir", os.fspath(args[0])))
        elif event in ("os.rename", "os.replace"):
            _REC["events"].append(("move_to", os.fspath(args[1])))
        elif event == "shutil.move":
            _REC["events"].append(("move_to", os.fspath(args[1])))
        elif event in ("os.remove", "os.rmdir", "os.unlink"):
            _REC["events"].append(("remove", os.fspath(args[0])))
        elif event == "shutil.rmtree":
            _REC["events"].append(("remove", os.fspath(args[0])))
        elif event == "shutil.copyfile":
            _REC["events"].append(("open_w", os.fspath(args[1])))
    except Exception:
        pass


def _hook():
    if not _HOOKED["done"]:
        sys.addaudithook(_audit)
        _HOOKED["done"] = True


def _sha(b):
    return hashlib.sha1(b).hexdigest()


class StubConverter:
    def __init__(self, outcome):
        self.outcome = outcome
        self.called = False

    def convert(self, input_files, output_dir, format="pdf", overwrite=False):
        self.called = True
        src = Path(input_files)
        out = Path(output_dir) / (src.stem + "." + format)
        if self.outcome == "raise_before":
            raise ConverterBoom("before output")
        if self.outcome == "ret_missing":
            return out          # well-typed, but nothing was produced
        if self.outcome == "ok_empty":
            out.write_bytes(b"")    # the converter succeeded with an empty file: that is its output
            if format == "html":
                res = out.with_name(out.name + "_files")
                res.mkdir()
                (res / "img1.png").write_bytes(b"PNG")
            return out
        out.write_bytes(b"CONVERTED:" + format.encode() + b":" + src.read_bytes())
        if format == "html":
            res = out.with_name(out.name + "_files")
            res.mkdir()
            (res / "img1.png").write_bytes(b"PNG")
        if self.outcome == "raise_after":
            raise ConverterBoom("after output")
        if self.outcome == "ret_list":
            return [out]
        if self.outcome == "ret_none":
            return None
        if self.outcome == "ret_str":
            return str(out)
        return out


def make_doc():
    import polars as pl
    import rtflite as rtf
    df = pl.DataFrame({"a": ["x1", "x2", "x3"], "b": ["\\alpha >= 1", "café", "z"], "c": [1.5, None, 3.0]})
    return rtf.RTFDocument(df=df, rtf_title=rtf.RTFTitle(text=["Title", "t^2"]), rtf_footnote=rtf.RTFFootnote(text="fn"),
                           rtf_source=rtf.RTFSource(text="src"), rtf_body=rtf.RTFBody(text_color=[["red", "blue", ""]], page_by=None),
                           rtf_page=rtf.RTFPage(nrow=4), rtf_page_header=rtf.RTFPageHeader())


def _is_lib(fn):
    return "/rtflite/" in fn and "/verif/" not in fn


_GEN_FLAGS = 0x20 | 0x80 | 0x200      # CO_GENERATOR | CO_COROUTINE | CO_ASYNC_GENERATOR


def is_lib_call(frame):
    """A function-call boundary inside the library.  Resumptions of generator frames (<genexpr> ...) are not counted:
    they are not calls, and an exception raised while the interpreter finalises a generator is discarded by Python
    ("Exception ignored in: <generator ...>"), so it would not be a fault the library ever sees."""
    return _is_lib(frame.f_code.co_filename) and not (frame.f_code.co_flags & _GEN_FLAGS)


def count_calls(writer):
    """Number of library function calls of one successful export (dry run with the ok stub)."""
    n = {"n": 0}

    def tracer(frame, event, arg):
        if event == "call" and is_lib_call(frame):
            n["n"] += 1
        return None
    root = tempfile.mkdtemp(prefix="rtflite-verif-exp-")
    try:
        doc = make_doc()
        old = tempfile.tempdir
        os.makedirs(os.path.join(root, "tmp"))
        tempfile.tempdir = os.path.join(root, "tmp")
        sys.settrace(tracer)
        try:
            with contextlib.redirect_stdout(io.StringIO()):
                _call(doc, writer, os.path.join(root, "o", "report." + _ext(writer)), StubConverter("ok"))
        finally:
            sys.settrace(None)
            tempfile.tempdir = old
    finally:
        shutil.rmtree(root, ignore_errors=True)
    return n["n"]


def _ext(writer):
    return {"rtf": "rtf", "docx": "docx", "html": "html", "pdf": "pdf"}[writer]


def _call(doc, writer, target, conv):
    if writer == "rtf":
        return doc.write_rtf(target)
    fn = getattr(doc, "write_" + writer)
    if conv is None:
        return fn(target)
    return fn(target, converter=conv)


def run_one(sc):
    _hook()
    s = sc["sc"]
    writer = s["writer"]
    root = tempfile.mkdtemp(prefix="rtflite-verif-exp-")
    rec = {"id": sc["id"], "sc": s}
    old_tmp = tempfile.tempdir
    old_cwd, old_home = os.getcwd(), os.environ.get("HOME")
    fake = None
    try:
        doc = make_doc()
        expected_rtf = doc.rtf_encode()
        priv = os.path.join(root, "tmp")
        os.makedirs(priv)
        cwd_dir = os.path.join(root, "cwd")
        os.makedirs(cwd_dir)
        os.chdir(cwd_dir)
        if s["target0"] == "tilde":
            # a home-relative target ("~/reports/2024/...") whose directories do not exist yet
            home = os.path.join(root, "home")
            os.makedirs(home)
            os.environ["HOME"] = home
            parent = os.path.join(home, "reports", "2024")
        elif s["target0"] == "missingdir":
            # the nearest existing ancestor is an EMPTY directory of the caller's: it must still be there whatever happens
            os.makedirs(os.path.join(root, "pre"))
            parent = os.path.join(root, "pre", "deep", "er")
        else:
            parent = os.path.join(root, "out")
            os.makedirs(parent)
            with open(os.path.join(parent, "neighbour.txt"), "w") as f:
                f.write("keep")
        tname = s.get("tname", "std")
        target = os.path.join(parent, "report" + {"std": "." + _ext(writer), "htm": ".htm", "noext": ""}[tname])
        target_arg = ("~/reports/2024/" + os.path.basename(target)) if s["target0"] == "tilde" else target
        if s["target0"] == "old":
            with open(target, "wb") as f:
                f.write(b"OLD CONTENT \x00\xff")

        def snap():
            t = _sha(open(target, "rb").read()) if os.path.isfile(target) else ("DIR" if os.path.isdir(target) else "")
            beside = sorted(x for x in os.listdir(parent) if x != os.path.basename(target)) if os.path.isdir(parent) else []
            beside += ["cwd:" + x for x in sorted(os.listdir(cwd_dir))]       # nothing may appear in the working directory
            if s["target0"] == "missingdir":
                beside = ["ancestor:" + ("present" if os.path.isdir(os.path.join(root, "pre")) else "GONE")] + beside
            ntmp = len(os.listdir(priv))
            return {"target": t, "beside": beside, "tmp": ntmp}
        if s.get("prior", "none") == "export_edit":
            # an earlier export of this very object to another place, then an in-place edit of two components
            with contextlib.redirect_stdout(io.StringIO()):
                _call(doc, writer, os.path.join(root, "earlier", "first." + _ext(writer)), StubConverter("ok") if writer != "rtf" else None)
            doc.rtf_title.text = ["Title edited in place", "second line"]
            doc.rtf_footnote.text = ["footnote edited in place"]
            expected_rtf = doc.rtf_encode()
        before = snap()
        conv = StubConverter(s["conv"]) if s["converter"] == "stub" and writer != "rtf" else None
        if s["converter"] in ("real", "onpath") and writer != "rtf":
            # the real LibreOfficeConverter against the fake program of harness/converter.py (kept outside the
            # private temporary directory and outside the target's directory)
            import converter as cvt
            from rtflite.convert import LibreOfficeConverter
            beh = {"ok": "ok", "raise_before": "fail_before", "raise_after": "fail_after", "silent": "silent"}[s["conv"]]
            fake = cvt.FakeEnv(os.path.join(root, "lo"), {"arg": "abs_ok" if s["converter"] == "real" else "none",
                                                          "onpath": "soffice" if s["converter"] == "onpath" else "none",
                                                          "ver": "7.1", "beh": beh, "behat": 1})
            os.makedirs(os.path.join(root, "lo"))
            fake.__enter__()
            # (the fake environment switches HOME and the working directory: put the scenario's own back)
            os.chdir(cwd_dir)
            if s["target0"] == "tilde":
                os.environ["HOME"] = home
            if s["converter"] == "real":
                conv = LibreOfficeConverter(executable_path=fake.arg())
        fired = {"v": False, "n": 0}
        k = s["fault"]
        exc_cls = InjectedBase if s["flavour"] == "base" else InjectedExc

        def tracer(frame, event, arg):
            if event == "call" and is_lib_call(frame):
                fired["n"] += 1
                if k and fired["n"] == k and not fired["v"]:
                    fired["v"] = True
                    raise exc_cls("injected at call %d (%s)" % (k, frame.f_code.co_name))
            return None
        tempfile.tempdir = priv
        _REC["events"] = []
        _REC["fail_at"] = s.get("fsfault", 0)
        _REC["tmp_prefix"] = os.path.realpath(priv)
        _REC["target_real"] = os.path.realpath(target)
        _REC["count"] = 0
        _REC["fired"] = False
        _REC["on"] = True
        outcome, exc = "returned", ""
        # what rtf_encode() returns in THIS call (an injected Exception may be absorbed inside the
        # library, e.g. by the text-conversion service, and legitimately change the string)
        import rtflite
        captured = []
        orig_encode = rtflite.RTFDocument.rtf_encode

        def _capturing_encode(self):
            r = orig_encode(self)
            captured.append(r)
            return r
        rtflite.RTFDocument.rtf_encode = _capturing_encode
        sys.settrace(tracer if k else None)
        try:
            with contextlib.redirect_stdout(io.StringIO()):
                _call(doc, writer, target_arg, conv)
        except BaseException as ex:  # noqa
            outcome, exc = "raised", type(ex).__name__
        finally:
            sys.settrace(None)
            rtflite.RTFDocument.rtf_encode = orig_encode
            _REC["on"] = False
            tempfile.tempdir = old_tmp
            fake_events = []
            if fake is not None:
                fake_events = fake.events()
                fake.__exit__(None, None, None)
        if captured:
            expected_rtf = captured[-1]
        after = snap()
        tp = os.path.realpath(target)
        pp = os.path.realpath(parent)
        ev = []
        for op, path in _REC["events"]:
            rp = os.path.realpath(path)
            if rp == tp:
                where = "target"
            elif os.path.dirname(rp) == pp:
                where = "beside"
            elif rp.startswith(os.path.realpath(priv)):
                where = "tmp"
            elif pp == rp or pp.startswith(rp + os.sep):
                where = "parent"
            else:
                where = "other"
            ev.append({"op": op, "where": where, "res": rp.endswith("_files")})
        if writer == "rtf":
            expected = _sha(expected_rtf.encode("utf-8"))
        else:
            expected = _sha(b"CONVERTED:" + _ext(writer).encode() + b":" + expected_rtf.encode("utf-8"))
            if s["conv"] == "ok_empty":
                expected = _sha(b"")
        rec["c"] = {"writer": writer, "target0": s["target0"], "conv": s["conv"], "converter": s["converter"], "fault": s["fault"],
                    "flavour": s["flavour"], "outcome": outcome, "exc": exc, "before": before, "after": after, "expected": expected,
                    "resources": ["report.html_files"] if writer == "html" else [],
                    "reached_convert": bool(conv and getattr(conv, "called", False)) or any(e[0] == "convert" for e in fake_events),
                    "program_invocations": len(fake_events), "fault_fired": fired["v"],
                    "fsfault": s.get("fsfault", 0), "fs_fired": bool(_REC["fired"])}
        rec["ev"] = ev
        return rec
    finally:
        tempfile.tempdir = old_tmp
        try:
            os.chdir(old_cwd)
            if old_home is None:
                os.environ.pop("HOME", None)
            else:
                os.environ["HOME"] = old_home
        except Exception:  # noqa
            pass
        if fake is not None:
            fake.__exit__(None, None, None)
        shutil.rmtree(root, ignore_errors=True)
