"""Concrete documents for the colour / purity / concurrency families (C12, C14, C15) and the
observation of colour and font references in an encoded document."""
from __future__ import annotations

import json
import os
import re
import struct
import tempfile
import zlib

from common import setup_path

setup_path()

HERE = os.path.dirname(os.path.abspath(__file__))
with open(os.path.join(HERE, "colors657.json")) as _f:
    COLORS = json.load(_f)                 # name -> [master index, [r, g, b]]  (snapshot of R's colors())
BY_INDEX = {v[0]: k for k, v in COLORS.items()}
FONT_NAMES = ["Times New Roman", "Times New Roman Greek", "Arial Greek", "Arial", "Helvetica", "Calibri", "Georgia",
              "Cambria", "Courier New", "Symbol"]


def rgb(name):
    return list(COLORS[name][1]) if name else []


def tiny_png(path, w=3, h=2):
    def chunk(t, d):
        c = struct.pack(">I", len(d)) + t + d
        return c + struct.pack(">I", zlib.crc32(t + d) & 0xFFFFFFFF)
    raw = b"".join(b"\x00" + b"\xff\x00\x00" * w for _ in range(h))
    data = b"\x89PNG\r\n\x1a\n" + chunk(b"IHDR", struct.pack(">IIBBBBB", w, h, 8, 2, 0, 0, 0)) + \
        chunk(b"IDAT", zlib.compress(raw)) + chunk(b"IEND", b"")
    with open(path, "wb") as f:
        f.write(data)
    return path


# --------------------------------------------------------------------------------------
# generic coloured document
# --------------------------------------------------------------------------------------

def build_color_doc(spec, shared=None, shared_page=None, shared_subline=None, shared_notes=None):
    """spec: dict(path, sections=[dict(n, m, text, bg, brd)], comp={name: [text, bg, font]}, nrow)
    comp names: title subline header footnote source pghdr pgftr.  Returns RTFDocument."""
    import polars as pl
    import rtflite as rtf

    def comp_kw(name):
        cc = spec.get("comp", {}).get(name) or ["", "", 0]
        t, b, f = cc[:3]
        kw = {}
        if len(cc) > 3 and cc[3] and name in ("header", "footnote", "source"):
            kw["border_color_top"] = cc[3]
        if t:
            kw["text_color"] = t
        if b:
            kw["text_background_color"] = b
        if f:
            kw["text_font"] = f
        return kw

    comp = spec.get("comp", {})
    kw = {}
    kw["rtf_title"] = rtf.RTFTitle(text="~T~", **comp_kw("title")) if "title" in comp else None
    if shared_subline is not None:
        kw["rtf_subline"] = shared_subline
    elif "subline" in comp:
        kw["rtf_subline"] = rtf.RTFSubline(text="~SL~", **comp_kw("subline"))
    if "pghdr" in comp:
        kw["rtf_page_header"] = rtf.RTFPageHeader(text="~PH~", **comp_kw("pghdr"))
    if "pgftr" in comp:
        kw["rtf_page_footer"] = rtf.RTFPageFooter(text="~PF~", **comp_kw("pgftr"))
    path = spec["path"]
    if path == "figure":
        if "footnote" in comp:
            kw["rtf_footnote"] = rtf.RTFFootnote(text="~FN~", as_table=False, **comp_kw("footnote"))
        if "source" in comp:
            kw["rtf_source"] = rtf.RTFSource(text="~SRC~", as_table=False, **comp_kw("source"))
        d = spec.get("tmpdir") or tempfile.mkdtemp(prefix="rtflite-verif-fig-")
        figs = [tiny_png(os.path.join(d, "f%d.png" % i)) for i in range(spec.get("nfig", 2))]
        return rtf.RTFDocument(rtf_figure=rtf.RTFFigure(figures=figs, fig_width=1.0, fig_height=1.0), **kw)
    if shared_notes is not None:
        # one caller-owned footnote and source (several lines each) used by every document of the family
        kw["rtf_footnote"], kw["rtf_source"] = shared_notes
    if "footnote" in comp and shared_notes is None:
        kw["rtf_footnote"] = rtf.RTFFootnote(text="~FN~", **comp_kw("footnote"))
    if "source" in comp and shared_notes is None:
        cs = comp["source"]
        kw["rtf_source"] = rtf.RTFSource(text="~SRC~", **({"as_table": True} if len(cs) > 3 and cs[3] else {}), **comp_kw("source"))
    dfs, bodies, headers = [], [], []
    for si, s in enumerate(spec["sections"]):
        n, m = s["n"], s["m"]
        cols = ["~D%d.%d~" % (si + 1, j + 1) for j in range(m)]
        df = pl.DataFrame({c: ["c%d.%d.%d" % (si + 1, r + 1, j + 1) for r in range(n)] for j, c in enumerate(cols)},
                          schema={c: pl.Utf8 for c in cols})
        if s.get("bad_group"):
            df = df.with_columns(pl.Series(cols[0], ["a", "b", "a"][:n]))
        if s.get("celltext"):
            df = df.with_columns(pl.Series(cols[-1], [s["celltext"][r % len(s["celltext"])] for r in range(n)]))
        for j, vals in (s.get("colvals") or {}).items():
            df = df.with_columns(pl.Series(cols[int(j)], [vals[r % len(vals)] if len(vals) < n else vals[r] for r in range(n)]))
        bkw = {}
        if s.get("text"):
            bkw["text_color"] = s["text"]
        if s.get("bg"):
            bkw["text_background_color"] = s["bg"]
        for side, mat in (s.get("brd") or {}).items():
            bkw["border_color_" + side] = mat
        for side, mat in (s.get("bstyle") or {}).items():
            bkw["border_" + side] = [list(row) for row in mat]
        if s.get("font"):
            bkw["text_font"] = s["font"]
        if s.get("group_by"):
            bkw["group_by"] = s["group_by"]
        if s.get("subline_by"):
            bkw["subline_by"] = s["subline_by"]
        if s.get("page_by"):
            bkw["page_by"] = s["page_by"]
        if spec.get("body_border_last") is not None:
            bkw["border_last"] = spec["body_border_last"]
        body = shared if (shared is not None and si == 0) else rtf.RTFBody(**bkw)
        dfs.append(df)
        bodies.append(body)
        if "header" in comp:
            if spec.get("header_auto"):
                # no text of its own: the labels are the column names
                headers.append([rtf.RTFColumnHeader(**comp_kw("header"))])
            else:
                headers.append([rtf.RTFColumnHeader(text=["~H%d.%d~" % (si + 1, j + 1) for j in range(m)], **comp_kw("header"))])
        else:
            headers.append([None])
    page = shared_page if shared_page is not None else rtf.RTFPage(nrow=spec.get("nrow", 40), **({"page_footnote": spec["page_footnote"]} if spec.get("page_footnote") else {}),
                       **({"margin": list(spec["margin"])} if spec.get("margin") else {}),
                       **({"use_color": spec["use_color"] == "true"} if spec.get("use_color", "default") != "default" else {}))
    if path == "single":
        hk = {} if spec.get("default_header") else {"rtf_column_header": headers[0] if "header" in comp else []}
        return rtf.RTFDocument(df=dfs[0], rtf_body=bodies[0], rtf_page=page, **hk, **kw)
    return rtf.RTFDocument(df=dfs, rtf_body=bodies, rtf_page=page, rtf_column_header=headers, **kw)


# --------------------------------------------------------------------------------------
# observation: every colour / font reference with the element that carries it
# --------------------------------------------------------------------------------------
_CELL = re.compile(r"^c(\d+)\.(\d+)\.(\d+)$")
_HDR = re.compile(r"^~[HD](\d+)\.(\d+)~$")        # header text of its own, or a column name used as header label
PARA_ROLES = {"~T~": "title", "~SL~": "subline", "~FN~": "footnote", "~SRC~": "source", "~PH~": "pghdr", "~PF~": "pgftr"}


def observe_colors(text, spec):
    from rtfreader import parse
    d = parse(text)
    tbl = [list(x) if x is not None else [] for x in (d.colors or [])]
    # tbl[0] is the auto entry; entries are 1-based for TLA: drop the auto entry
    table = tbl[1:] if tbl else []
    fonts = [d.fonts.get(i, "") for i in range(0, (max(d.fonts) + 1) if d.fonts else 0)]
    ev = []

    def want_comp(role, which):
        c = spec.get("comp", {}).get(role)
        if not c:
            return []
        return rgb(c[0] if which == "text" else c[1])

    def want_font(role):
        c = spec.get("comp", {}).get(role)
        f = (c[2] if c and len(c) > 2 and c[2] else 1)
        return f

    def add_runs(role, blk, wt, wb, wf):
        for run in blk.runs[:1]:
            ev.append({"kind": "cf", "role": role, "idx": run.get("cf") or 0, "want": wt})
            ev.append({"kind": "cb", "role": role, "idx": run.get("chcbpat") or 0, "want": wb})
            if run.get("cb") is not None and run.get("cb") != (run.get("chcbpat") or 0):
                ev.append({"kind": "cb", "role": role + ".cb", "idx": run.get("cb") or 0, "want": wb})
            ev.append({"kind": "font", "role": role, "idx": run.get("f") if run.get("f") is not None else -1,
                       "want": FONT_NAMES[wf - 1], "num": wf})

    def body_want(si, r, j, key):
        s = spec["sections"][si]
        mat = s.get(key) if key in ("text", "bg") else (s.get("brd") or {}).get(key)
        if not mat:
            return []
        if isinstance(mat, str):
            return rgb(mat)
        row = mat[r % len(mat)]
        return rgb(row[j % len(row)])

    def body_font(si, r, j):
        s = spec["sections"][si]
        f = s.get("font")
        if not f:
            return 1
        if isinstance(f, int):
            return f
        row = f[r % len(f)]
        return row[j % len(row)]

    def scan(blocks):
        for b in blocks:
            if b.kind == "para":
                role = PARA_ROLES.get(b.text)
                if role:
                    add_runs(role, b, want_comp(role, "text"), want_comp(role, "bg"), want_font(role))
            elif b.kind == "row":
                for k, cell in enumerate(b.cells):
                    m = _CELL.match(cell.text)
                    h = _HDR.match(cell.text)
                    if m:
                        si, r, j = int(m.group(1)) - 1, int(m.group(2)) - 1, int(m.group(3)) - 1
                        role = "body%d.%d.%d" % (si + 1, r + 1, j + 1)
                        add_runs(role, cell, body_want(si, r, j, "text"), body_want(si, r, j, "bg"), body_font(si, r, j))
                        dd = b.defs[k] if k < len(b.defs) else {"borders": {}}
                        for side, key in (("l", "left"), ("t", "top"), ("r", "right"), ("b", "bottom")):
                            bb = dd["borders"].get(side)
                            if bb is not None:
                                ev.append({"kind": "brdr", "role": role + "." + key, "idx": bb[2] or 0,
                                           "want": body_want(si, r, j, key)})
                    elif h or cell.text in PARA_ROLES:
                        role = "header" if h else PARA_ROLES[cell.text]
                        add_runs(role, cell, want_comp(role, "text"), want_comp(role, "bg"), want_font(role))
                        cc = spec.get("comp", {}).get(role) or []
                        dd = b.defs[k] if k < len(b.defs) else {"borders": {}}
                        bb = dd["borders"].get("t")
                        if bb is not None and (len(cc) > 3 and cc[3] or bb[2]):
                            ev.append({"kind": "brdr", "role": role + ".top", "idx": bb[2] or 0, "want": rgb(cc[3]) if len(cc) > 3 else []})
    for pg in d.pages:
        scan(pg.blocks)
    for hb in d.headers:
        scan(hb)
    for fb in d.footers:
        scan(fb)
    roles = sorted({e["role"].split(".")[0] if not e["role"].startswith("body") else "body" for e in ev})
    return {"tbl": table, "fonts": fonts, "ncolortbl": d.n_colortbl, "roles": roles}, ev


# --------------------------------------------------------------------------------------
# the fixed document pool of spec/ColorCtx.tla (C14, C15)
# --------------------------------------------------------------------------------------
# The colour look-ups of every pool document, in rendering order, are exactly Uses(dd) of the
# specification (red=552, blue=26, darkred=100, grey39=300, yellow=652).
POOL = {
    "plain": dict(path="single", sections=[dict(n=3, m=2)], comp={"title": ["", "", 0]}),
    "colA": dict(path="single", sections=[dict(n=3, m=1, text=[["red"], ["blue"], ["red"]])], comp={}),
    "colB": dict(path="single", sections=[dict(n=3, m=1, text=[["yellow"], ["darkred"], ["grey39"]])], comp={"footnote": ["", "", 0]}),
    "multi": dict(path="multi", sections=[dict(n=1, m=2, text=[["darkred", "blue"]]), dict(n=2, m=2)], comp={"title": ["", "", 0]}),
    "fig": dict(path="figure", comp={"title": ["red", "", 0]}, nfig=2),
    "fail": dict(path="single", sections=[dict(n=3, m=2, text="grey39", group_by=["~D1.1~"])], comp={}),
    "share2": dict(path="single", sections=[dict(n=2, m=2)], comp={}),
    "share3": dict(path="single", sections=[dict(n=2, m=3)], comp={}),
    # paginated, table footnote on every page, no body closing border: a page without its own border override
    "pagedfn": dict(path="single", sections=[dict(n=5, m=2)], comp={"footnote": ["", "", 0]}, nrow=4, page_footnote="all", body_border_last=""),
    # paginated with the default (auto-populated) column header
    "pagedhdr": dict(path="single", sections=[dict(n=9, m=2)], comp={}, nrow=4, default_header=True),
    # multi-section, the first section has fewer columns than the last, no footnote
    "multi13": dict(path="multi", sections=[dict(n=2, m=1), dict(n=2, m=3)], comp={}),
    "paged": dict(path="single", sections=[dict(n=4, m=1, text=[["blue"], ["red"]])], comp={"title": ["", "", 0], "footnote": ["", "", 0]}, nrow=3),
    # a 1x1 table on the RTFBody() shared with share2/share3 (its default 1x1 attribute grids have the table's shape)
    "share1": dict(path="single", sections=[dict(n=1, m=1)], comp={}),
    # two tables on one shared RTFBody(col_rel_width=[1]) (the one-value shorthand is expanded per document)
    "sharew2": dict(path="single", sections=[dict(n=2, m=2)], comp={}),
    "sharew3": dict(path="single", sections=[dict(n=2, m=3)], comp={}),
    # coloured borders as the only colour / next to another colour (the same border gets another index)
    "brdA": dict(path="single", sections=[dict(n=2, m=1, brd={"top": [["red"], ["red"]]})], comp={}),
    "brdB": dict(path="single", sections=[dict(n=2, m=1, text=[["blue"], ["blue"]], brd={"top": [["red"], ["red"]]})], comp={}),
    # a caller-supplied border matrix with exactly the shape of the first page (3 rows x 2 columns)
    "cyc": dict(path="single", sections=[dict(n=5, m=2, bstyle={"bottom": [["single", ""], ["", "double"], ["dashed", "single"]],
                                                                "top": [["", "single"], ["double", ""], ["", ""]]})], comp={}, nrow=3),
    # the same paper and orientation with different margins, several pages
    "pagedm1": dict(path="single", sections=[dict(n=5, m=2)], comp={}, nrow=3, margin=[1.25, 1.0, 1.75, 1.25, 1.75, 1.00625]),
    "pagedm2": dict(path="single", sections=[dict(n=5, m=2)], comp={}, nrow=3, margin=[0.8, 1.4, 1.1, 0.9, 0.7, 0.6]),
    # two documents on one caller-owned RTFPage: a plain table, and a multi-section document whose SECOND section
    # cannot be encoded (non-contiguous group_by), so that its encode fails half-way
    "pgshare": dict(path="single", sections=[dict(n=3, m=2)], comp={"title": ["", "", 0]}),
    # two documents on one caller-owned RTFSubline (a text component that refers to the table for its indentation)
    "subA": dict(path="single", sections=[dict(n=2, m=2)], comp={}),
    "subB": dict(path="single", sections=[dict(n=3, m=1)], comp={}),
    # two documents on one caller-owned RTFFootnote / RTFSource (three and two text lines)
    "fnA": dict(path="single", sections=[dict(n=3, m=2)], comp={}),
    "fnB": dict(path="single", sections=[dict(n=2, m=1)], comp={"title": ["", "", 0]}),
    # subline_by together with page_by, new_page left at its default
    "sublpb": dict(path="single", sections=[dict(n=4, m=3, colvals={"0": ["s1", "s1", "s2", "s2"], "1": ["p1", "p2", "p1", "p2"]},
                                                 subline_by=["~D1.1~"], page_by=["~D1.2~"])], comp={}),
    # cells with LaTeX commands from the start / from the end of the symbol table (text conversion is on by default)
    "texA": dict(path="single", sections=[dict(n=2, m=2, celltext=["\\alpha + \\beta", "x \\leq \\gamma"])], comp={}),
    "texB": dict(path="single", sections=[dict(n=2, m=2, celltext=["\\omega \\zeta", "\\Xi \\varpi \\wr \\xi"])], comp={}),
    # group_by on different columns, a group continuing over a page break
    "grpA": dict(path="single", sections=[dict(n=6, m=2, colvals={"0": ["g1", "g1", "g1", "g1", "g1", "g2"]}, group_by=["~D1.1~"])], comp={}, nrow=4),
    "grpB": dict(path="single", sections=[dict(n=5, m=2, colvals={"1": ["h1", "h1", "h1", "h1", "h2"]}, group_by=["~D1.2~"])], comp={}, nrow=3),
    # a multi-section document that encodes, on the same caller-owned RTFPage as pgshare (thread pairs)
    "pgmulti": dict(path="multi", sections=[dict(n=2, m=2), dict(n=3, m=2)], comp={}),
    "pgfail": dict(path="multi", sections=[dict(n=2, m=2), dict(n=3, m=2, group_by=["~D2.1~"], bad_group=True)], comp={}),
}
SHARED_FAMILY = {"share1": "b", "share2": "b", "share3": "b", "sharew2": "w", "sharew3": "w"}
SHARED_PAGE = {"pgshare", "pgfail", "pgmulti"}        # documents built on one caller-owned RTFPage object
SHARED_SUBLINE = {"subA", "subB"}          # documents built on one caller-owned RTFSubline object
SHARED_NOTES = {"fnA", "fnB"}              # documents built on one caller-owned RTFFootnote and RTFSource


def new_shared_notes():
    import rtflite as rtf
    return (rtf.RTFFootnote(text=["Note one", "Note two", "Note three"]), rtf.RTFSource(text=["Source: a", "b"]))


def new_shared_subline():
    import rtflite as rtf
    return rtf.RTFSubline(text="~SL~")


def new_shared_page():
    import rtflite as rtf
    return rtf.RTFPage(nrow=40)


def new_shared_body(fam):
    import rtflite as rtf
    return rtf.RTFBody() if fam == "b" else rtf.RTFBody(col_rel_width=[1])


def build_pool_doc(name, shared_body=None, tmpdir=None, shared_page=None, shared_subline=None, shared_notes=None):
    import polars as pl
    spec = dict(POOL[name])
    if tmpdir:
        spec["tmpdir"] = tmpdir
    if name == "fail":
        import rtflite as rtf
        df = pl.DataFrame({"~D1.1~": ["a", "b", "a"], "~D1.2~": ["c1.1.2", "c1.2.2", "c1.3.2"]})
        return rtf.RTFDocument(df=df, rtf_body=rtf.RTFBody(group_by=["~D1.1~"], text_color="grey39"), rtf_title=None)
    return build_color_doc(spec, shared=shared_body if name in SHARED_FAMILY else None,
                           shared_page=shared_page if name in SHARED_PAGE else None,
                           shared_subline=(shared_subline if shared_subline is not None else new_shared_subline()) if name in SHARED_SUBLINE else None,
                           shared_notes=(shared_notes if shared_notes is not None else new_shared_notes()) if name in SHARED_NOTES else None)
