"""Driver for C16 (figures embedded byte-exactly, one per page, at the configured size)."""
from __future__ import annotations

import hashlib
import os
import random
import shutil
import struct
import tempfile

from common import setup_path

setup_path()
GEOM_KEYS = ("paperw", "paperh", "margl", "margr", "margt", "margb", "headery", "footery")
SUFFIX = {"png": [".png", ".PNG"], "jpeg": [".jpg", ".jpeg", ".JPG"], "emf": [".emf"]}


def make_image(kind, rng, size):
    """Bytes with a valid header of the given kind and arbitrary dimensions; returns (bytes, w, h)."""
    def dim(maxv):
        # arbitrary dimensions: small, 16-bit, the boundaries of the 16-bit range and (PNG) anything up to 2^31 - 1
        u = rng.random()
        if u < 0.5:
            return rng.randint(1, min(maxv, 60000))
        if u < 0.75:
            return rng.choice([v for v in (1, 255, 256, 32767, 32768, 65535, 65536, 65537, 100000, 2**24, 2**31 - 1) if v <= maxv])
        return rng.randint(1, maxv)
    w, h = dim(2**31 - 1), dim(2**31 - 1)
    body = bytes(rng.getrandbits(8) for _ in range(max(0, size)))
    if kind == "png":
        data = b"\x89PNG\r\n\x1a\n" + struct.pack(">I", 13) + b"IHDR" + struct.pack(">II", w, h) + b"\x08\x02\x00\x00\x00" + body
        if len(data) <= 24:
            data += b"\x00" * (25 - len(data))
        return data, w, h
    if kind == "jpeg":
        w, h = dim(65535), dim(65535)
        segs = b""
        for _ in range(rng.randint(0, 2)):       # APPn segments before the frame header
            n = rng.randint(2, 40)
            # segment payloads are arbitrary bytes: 0xFF values (a saturated quantisation table), also at the very end,
            # and byte sequences that look like a frame header must be skipped by the segment length
            payload = bytearray(rng.getrandbits(8) for _ in range(n - 2))
            style = rng.random()
            if style < 0.35 and len(payload) >= 2:
                payload[-1] = 0xFF
                if rng.random() < 0.5:
                    payload[-2] = 0xFF
            elif style < 0.6 and len(payload) >= 12:
                fake = b"\xff\xc0\x00\x11\x08" + struct.pack(">HH", rng.randint(1, 999), rng.randint(1, 999))
                payload[1:1 + len(fake)] = fake
            segs += b"\xff" + bytes([rng.choice([0xE0, 0xE1, 0xDB, 0xC4])]) + struct.pack(">H", n) + bytes(payload)
        sof = rng.choice([0xC0, 0xC1, 0xC2, 0xC3, 0xC5, 0xC9, 0xCF])
        frame = b"\xff" + bytes([sof]) + struct.pack(">H", 17) + b"\x08" + struct.pack(">HH", h, w) + b"\x03" + b"\x01\x11\x00" * 3
        data = b"\xff\xd8" + segs + frame + body + b"\xff\xd9" + b"\x00" * 10
        return data, w, h
    data = b"\x01\x00\x00\x00" + body + b"EMF"
    return data, 0, 0


def _twip(x):
    return int(round(x * 1440))


def run_one(sc):
    import rtflite as rtf
    from rtfreader import parse
    c = sc["c"]
    rng = random.Random(sc["seed"])
    tmp = tempfile.mkdtemp(prefix="rtflite-verif-fig-")
    rec = {"id": sc["id"], "cfg": c, "ev": [], "outcome": "ok"}
    try:
        files = []
        paths = []
        for i, kind in enumerate(c["kinds"], 1):
            if c.get("same") == "dupfirst" and i == len(c["kinds"]) and i >= 2:
                # the same path listed again: one image shown on two pages
                paths.append(paths[0])
                files.append(dict(files[0]))
                continue
            size = rng.choice(sc["sizes"])
            data, w, h = make_image(kind, rng, size)
            p = os.path.join(tmp, "fig%d%s" % (i, rng.choice(SUFFIX[kind])))
            if c.get("reuse"):
                # other bytes at the same path first, embedded by an earlier document; then rewritten in place with
                # the time stamp kept
                old, _, _ = make_image(kind, random.Random(sc["seed"] + 7919 * i), size + 64)
                with open(p, "wb") as f:
                    f.write(old)
                st = os.stat(p)
                try:
                    rtf.RTFDocument(rtf_figure=rtf.RTFFigure(figures=p, fig_width=1.0, fig_height=1.0)).rtf_encode()
                except Exception:  # noqa
                    pass
                with open(p, "wb") as f:
                    f.write(data)
                os.utime(p, ns=(st.st_atime_ns, st.st_mtime_ns))
            else:
                with open(p, "wb") as f:
                    f.write(data)
            paths.append(p if rng.random() < 0.5 else __import__("pathlib").Path(p))
            files.append({"fmt": kind, "w": w, "h": h, "len": len(data), "sha": hashlib.sha1(data).hexdigest(),
                          "bytes": list(data) if len(data) <= 512 else []})
        # sizes: multiples of 0.05 in so that inches x 1440 is an exact integer
        wl = [rng.randint(8, 140) / 20.0 for _ in range(c["wl"])]
        hl = [rng.randint(8, 140) / 20.0 for _ in range(c["hl"])]
        fw = [int(round(x * 20)) * 72 for x in wl]
        fh = [int(round(x * 20)) * 72 for x in hl]
        align = rng.choice(["left", "center", "right"])
        fig = rtf.RTFFigure(figures=paths if len(paths) > 1 or rng.random() < 0.5 else paths[0],
                            fig_width=wl if len(wl) > 1 or rng.random() < 0.5 else wl[0],
                            fig_height=hl if len(hl) > 1 or rng.random() < 0.5 else hl[0], fig_align=align)
        kw = {"rtf_title": rtf.RTFTitle(text="~T~") if c["title"] else None}
        if c.get("subline"):
            kw["rtf_subline"] = rtf.RTFSubline(text="~SL~")
        if c["foot"]:
            kw["rtf_footnote"] = rtf.RTFFootnote(text="~FN~", as_table=False)
        if c["src"]:
            kw["rtf_source"] = rtf.RTFSource(text="~SRC~", as_table=False)
        paper = rng.choice([{}, {"orientation": "landscape"}, {"width": 8.27, "height": 11.69}])
        page = rtf.RTFPage(page_title=c["ptitle"], page_footnote=c["pfoot"], page_source=c["psrc"], **paper)
        doc = rtf.RTFDocument(rtf_figure=fig, rtf_page=page, **kw)
        text = doc.rtf_encode()
    except Exception as ex:  # noqa
        rec["outcome"] = "error:" + type(ex).__name__ + ":" + str(ex)[:150]
        return rec
    finally:
        shutil.rmtree(tmp, ignore_errors=True)
    d = parse(text)
    ev = []
    npict = 0

    def E(k, p, **kw2):
        e = {"k": k, "p": p, "i": 0, "fmt": "", "picw": 0, "pich": 0, "wgoal": 0, "hgoal": 0, "dlen": 0, "dsha": "", "hexok": True, "bytes": [], "geom": []}
        e.update(kw2)
        ev.append(e)
    for pi, pg in enumerate(d.pages):
        p = pi + 1
        if p > 1:
            g = []
            for k in GEOM_KEYS:
                v = pg.geom.get(k)
                g.append(v[0] if v and len(v) == 1 else -1)
            E("break", p, geom=g if any(x != -1 for x in g) else [])
        for b in pg.blocks:
            if b.kind == "pict":
                npict += 1
                E("pict", p, i=npict, fmt=b.fmt or "", picw=b.props.get("picw") or 0, pich=b.props.get("pich") or 0,
                  wgoal=b.props.get("picwgoal") or 0, hgoal=b.props.get("pichgoal") or 0, dlen=len(b.data),
                  dsha=hashlib.sha1(b.data).hexdigest(), hexok=bool(b.hex_ok), bytes=list(b.data) if len(b.data) <= 512 else [])
            elif b.kind == "para":
                if b.text == "~T~":
                    E("title", p)
                elif b.text == "~SL~":
                    E("subline", p)
                elif b.text == "~FN~":
                    E("foot", p)
                elif b.text == "~SRC~":
                    E("src", p)
                elif b.text:
                    E("other", p)
            elif b.kind == "row":
                E("other", p)
    geom = [_twip(page.width), _twip(page.height)] + [_twip(m) for m in page.margin]
    rec["c"] = {"n": c["n"], "files": files, "fw": fw, "fh": fh, "title": c["title"], "subline": bool(c.get("subline")), "foot": c["foot"], "src": c["src"],
                "ptitle": c["ptitle"], "pfoot": c["pfoot"], "psrc": c["psrc"], "geom": geom}
    rec["ev"] = ev
    rec["struct"] = d.struct
    rec["lexerrs"] = len(d.lexerrs)
    if sc.get("pred") is not None:
        po = [(e["k"], e["p"], e["i"]) for e in sc["pred"]]
        oo = [(e["k"], e["p"], e["i"]) for e in ev]
        if po != oo:
            rec["drift"] = {"pred": po[:12], "obs": oo[:12]}
    return rec
