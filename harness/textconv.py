"""Driver for C11 (text conversion): abstract strings -> real documents -> reader events."""
from __future__ import annotations

import json
import os

from common import setup_path

setup_path()
HERE = os.path.dirname(os.path.abspath(__file__))
with open(os.path.join(HERE, "latex682.json")) as _f:
    LATEX = json.load(_f)          # command text -> code points (snapshot of the documented table)

PIECES = {"x": "e", "A": "in", "B": "t", "M": "mathbb", "p": "pagenumber", "1": "1", "sp": " ", "^": "^", "_": "_",
          ">": ">", "<": "<", "=": "=", "nl": "\n", "bs": "\\", "G": "{R}", "E": "{}", "H": "{\\in}", ".": ".", "T": "\\totalpage", "F": "\\pagefield"}


def concretise(syms, kcmd=None):
    return "".join(kcmd if s == "K" else PIECES[s] for s in syms)


def kctx(cmd):
    """Context record of spec/TextScan.tla for a command of the table."""
    if cmd is None:
        return {"name": "", "cps": [], "braced": False, "arg": [], "unknown": False}
    body = cmd[1:]
    unknown = cmd not in LATEX          # e.g. a supported command in another letter case
    cps = [] if unknown else LATEX[cmd]
    if "{" in body:
        name, arg = body.split("{", 1)
        return {"name": name, "cps": cps, "braced": True, "arg": [ord(c) for c in arg.rstrip("}")], "unknown": unknown}
    return {"name": body, "cps": cps, "braced": False, "arg": [], "unknown": unknown}


def norm_events(events):
    out = []
    for e in events:
        if e[0] == "c":
            out.append({"t": "c", "v": ord(e[1]), "p": -1})
        elif e[0] == "ctl":
            out.append({"t": "k", "v": e[1], "p": e[2] if e[2] is not None else -1})
        elif e[0] == "field":
            out.append({"t": "k", "v": "field:" + e[1], "p": -1})
        elif e[0] == "sym":
            out.append({"t": "k", "v": "sym:" + e[1], "p": -1})
    return out


def run_batch(batch):
    """batch = {"items": [{"id", "inp", "conv", "kcmd"}]}: one document, one body cell per item."""
    import polars as pl
    import rtflite as rtf
    from rtfreader import parse
    items = batch["items"]
    layout = batch.get("layout")
    if not layout:
        texts = ["%04d|" % k + concretise(it["inp"], it.get("kcmd")) for k, it in enumerate(items)]
        df = pl.DataFrame({"c": texts}, schema={"c": pl.Utf8})
        body = rtf.RTFBody(text_convert=[[bool(it["conv"])] for it in items], text_justification="l")
        doc = rtf.RTFDocument(df=df, rtf_body=body, rtf_page=rtf.RTFPage(nrow=len(items) + 10), rtf_title=None, rtf_column_header=[])
    elif layout.get("twin"):
        # two columns holding the SAME text in every row (items 2r and 2r+1 are the same input), text_convert per column
        # [on, off] or [off, on]: what one cell's treatment produced must not be reused for its twin
        pat = layout["twin"]
        rows = len(items) // 2
        texts = ["%04d|" % r + concretise(items[2 * r]["inp"], items[2 * r].get("kcmd")) for r in range(rows)]
        df = pl.DataFrame({"c0": texts, "c1": list(texts)}, schema={"c0": pl.Utf8, "c1": pl.Utf8})
        body = rtf.RTFBody(text_convert=[list(map(bool, pat))], text_justification="l")
        doc = rtf.RTFDocument(df=df, rtf_body=body, rtf_page=rtf.RTFPage(nrow=rows + 10), rtf_title=None, rtf_column_header=[])
    else:
        # a five-column frame with one grouping column (removed from the display) and text_convert given as a
        # pattern over the ORIGINAL columns that is narrower than the frame (recycled): layout = {by, gpos, pat}
        ncols, g, pat = 5, layout["gpos"], layout["pat"]
        conv_col = [bool(pat[j % len(pat)]) for j in range(ncols)]
        dcols = [j for j in range(ncols) if j != g]
        queues = {True: [k for k, it in enumerate(items) if it["conv"]], False: [k for k, it in enumerate(items) if not it["conv"]]}
        per = {v: max(1, sum(1 for j in dcols if conv_col[j] == v)) for v in (True, False)}
        nrows = max(1, max((len(queues[v]) + per[v] - 1) // per[v] for v in (True, False) if any(conv_col[j] == v for j in dcols)))
        data = {"c%d" % j: [] for j in range(ncols)}
        for r in range(nrows):
            for j in range(ncols):
                if j == g:
                    data["c%d" % j].append("grp")
                elif queues[conv_col[j]]:
                    k = queues[conv_col[j]].pop(0)
                    data["c%d" % j].append("%04d|" % k + concretise(items[k]["inp"], items[k].get("kcmd")))
                else:
                    data["c%d" % j].append("pad")
        df = pl.DataFrame(data, schema={k: pl.Utf8 for k in data})
        bk = {"text_convert": [list(map(bool, pat))], "text_justification": "l"}
        if layout["by"] == "subline":
            bk["subline_by"] = ["c%d" % g]
        else:
            bk["page_by"] = ["c%d" % g]
        doc = rtf.RTFDocument(df=df, rtf_body=rtf.RTFBody(**bk), rtf_page=rtf.RTFPage(nrow=nrows + 10), rtf_title=None, rtf_column_header=[])
    out = []
    try:
        text = doc.rtf_encode()
    except Exception as ex:  # noqa
        for it in items:
            out.append({"id": it["id"], "inp": it["inp"], "conv": it["conv"], "k": kctx(it.get("kcmd")), "obs": [], "error": type(ex).__name__ + ":" + str(ex)[:100]})
        return out
    d = parse(text)
    cells = {}
    twin = bool(layout and layout.get("twin"))
    for b in d.all_blocks():
        if b.kind != "row":
            continue
        for ci, cell in enumerate(b.cells):
            evs = cell.events
            head = "".join(e[1] for e in evs[:5] if e[0] == "c")
            if len(head) == 5 and head[4] == "|" and head[:4].isdigit():
                cells[(2 * int(head[:4]) + ci) if twin else int(head[:4])] = norm_events(evs[5:])
    for k, it in enumerate(items):
        rec = {"id": it["id"], "inp": it["inp"], "conv": it["conv"], "k": kctx(it.get("kcmd")), "obs": cells.get(k)}
        if rec["obs"] is None:
            rec["obs"] = []
            rec["error"] = "cell not found in output"
        rec["lexerrs"] = len(d.lexerrs)
        out.append(rec)
    return out


# ---- components with default / overridden text_convert ----
COMPONENT_DEFAULT = {"title": True, "subline": False, "header": True, "body": True, "footnote": True, "footnote_p": True,
                     "source": True, "source_p": True, "pghdr": False, "pgftr": False}


def run_component(item):
    """item = {"id", "inp", "comp", "override" (None|True|False)}"""
    import polars as pl
    import rtflite as rtf
    from rtfreader import parse
    comp, ov = item["comp"], item["override"]
    text = "~#~" + concretise(item["inp"])
    kw = {} if ov is None else {"text_convert": ov}
    df = pl.DataFrame({"c": ["plain"]})
    args = dict(df=df, rtf_title=None, rtf_column_header=[])
    if comp == "title":
        args["rtf_title"] = rtf.RTFTitle(text=text, **kw)
    elif comp == "subline":
        args["rtf_subline"] = rtf.RTFSubline(text=text, **kw)
    elif comp == "header":
        args["rtf_column_header"] = [rtf.RTFColumnHeader(text=[text], **kw)]
    elif comp == "body":
        args["df"] = pl.DataFrame({"c": [text]})
        args["rtf_body"] = rtf.RTFBody(**kw)
    elif comp in ("footnote", "footnote_p"):
        args["rtf_footnote"] = rtf.RTFFootnote(text=text, as_table=(comp == "footnote"), **kw)
    elif comp in ("source", "source_p"):
        args["rtf_source"] = rtf.RTFSource(text=text, as_table=(comp == "source"), **kw)
    elif comp == "pghdr":
        args["rtf_page_header"] = rtf.RTFPageHeader(text=text, **kw)
    elif comp == "pgftr":
        args["rtf_page_footer"] = rtf.RTFPageFooter(text=text, **kw)
    conv = COMPONENT_DEFAULT[comp] if ov is None else ov
    rec = {"id": item["id"], "inp": item["inp"], "conv": conv, "k": kctx(None), "obs": [], "comp": comp, "override": ov}
    try:
        out = rtf.RTFDocument(**args).rtf_encode()
    except Exception as ex:  # noqa
        rec["error"] = type(ex).__name__ + ":" + str(ex)[:100]
        return rec
    d = parse(out)
    blocks = list(d.all_blocks()) + [b for hb in d.headers for b in hb] + [b for fb in d.footers for b in fb]
    found = None
    for b in blocks:
        cands = b.cells if b.kind == "row" else ([b] if b.kind == "para" else [])
        for c in cands:
            if c.text.startswith("~#~"):
                found = c
    if found is None:
        rec["error"] = "component text not found"
        return rec
    rec["obs"] = norm_events(found.events[3:])
    return rec
