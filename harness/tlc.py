"""TLC runner and output parsers (standard library only)."""
from __future__ import annotations

import json
import os
import re
import shutil
import subprocess
import tempfile
import time

SPEC_DIR = os.path.join(os.path.dirname(os.path.dirname(os.path.abspath(__file__))), "spec")
JAR = "/opt/veriftools/tla/tla2tools.jar:/opt/veriftools/tla/CommunityModules-deps.jar"


class TLCError(RuntimeError):
    pass


class TLCResult:
    def __init__(self):
        self.stdout = ""
        self.rc = None
        self.generated = 0
        self.distinct = 0
        self.depth = 0
        self.json_lines = []      # decoded PrintT(ToJson(..)) payloads
        self.violated = []        # names of violated invariants / properties
        self.coverage = {}        # action -> (distinct, total)
        self.wall = 0.0
        self.error = None
        self.counterexample = ""


_RE_STATES = re.compile(r"(\d+) states generated, (\d+) distinct states found")
_RE_DEPTH = re.compile(r"The depth of the complete state graph search is (\d+)")
_RE_INV = re.compile(r"Invariant (\S+) is violated")
_RE_PROP = re.compile(r"Action property (\S+) is violated|Temporal properties were violated")
_RE_COV = re.compile(r"^<(\w+) line \d+, col \d+ to line \d+, col \d+ of module (\w+)>: (\d+):(\d+)", re.M)


def run(module: str, cfg: str, *, workers: int = 16, env: dict | None = None, simulate: str | None = None,
        depth: int | None = None, seed: int | None = None, timeout: int = 1800, coverage: bool = True,
        deadlock: bool = False, extra: list[str] | None = None, spec_dir: str = SPEC_DIR) -> TLCResult:
    """Run TLC on spec/<module>.tla with spec/<cfg>.  Returns a parsed TLCResult.

    Raises TLCError only for machinery failures (parse errors, crashes, timeout)."""
    meta = tempfile.mkdtemp(prefix="rtflite-verif-tlc-")
    cmd = ["java", "-XX:+UseParallelGC", "-Xss16m", "-cp", JAR, "tlc2.TLC",
           "-metadir", meta, "-noGenerateSpecTE", "-workers", str(workers), "-config", cfg]
    if coverage and not simulate:
        cmd += ["-coverage", "1"]
    if not deadlock:
        cmd += ["-deadlock"]
    if simulate:
        cmd += ["-simulate", simulate]
    if depth is not None:
        cmd += ["-depth", str(depth)]
    if seed is not None:
        cmd += ["-seed", str(seed)]
    if extra:
        cmd += extra
    cmd.append(module)
    e = dict(os.environ)
    if env:
        e.update({k: str(v) for k, v in env.items()})
    res = TLCResult()
    t0 = time.time()
    try:
        p = subprocess.run(cmd, cwd=spec_dir, env=e, stdout=subprocess.PIPE, stderr=subprocess.STDOUT,
                           timeout=timeout, text=True, errors="replace")
    except subprocess.TimeoutExpired as ex:
        shutil.rmtree(meta, ignore_errors=True)
        raise TLCError("TLC timeout after %ds: %s %s" % (timeout, module, cfg)) from ex
    finally:
        shutil.rmtree(meta, ignore_errors=True)
    res.wall = time.time() - t0
    res.stdout = p.stdout
    res.rc = p.returncode
    for m in _RE_STATES.finditer(p.stdout):
        res.generated, res.distinct = int(m.group(1)), int(m.group(2))
    m = _RE_DEPTH.search(p.stdout)
    if m:
        res.depth = int(m.group(1))
    res.violated = [m.group(1) for m in _RE_INV.finditer(p.stdout)]
    for m in _RE_PROP.finditer(p.stdout):
        res.violated.append(m.group(1) or "temporal")
    for m in _RE_COV.finditer(p.stdout):
        res.coverage[m.group(1)] = (int(m.group(3)), int(m.group(4)))
    for line in p.stdout.splitlines():
        line = line.strip()
        if line.startswith('"{') or line.startswith('"['):
            try:
                res.json_lines.append(json.loads(json.loads(line)))
            except Exception:
                pass
    if res.violated:
        i = p.stdout.find("is violated")
        res.counterexample = p.stdout[max(0, i - 200): i + 6000]
    fatal = ("Parsing or semantic analysis failed" in p.stdout or "TLC threw an unexpected exception" in p.stdout
             or "Error: TLC" in p.stdout and not res.violated or "was not able to" in p.stdout
             or "java.lang." in p.stdout and "Exception" in p.stdout and not res.violated)
    if "Error:" in p.stdout and not res.violated:
        # evaluation errors, unknown operators, missing files ...
        fatal = True
    if fatal:
        res.error = p.stdout[-4000:]
        raise TLCError("TLC failed on %s/%s:\n%s" % (module, cfg, res.error))
    return res


def sany(module: str, spec_dir: str = SPEC_DIR) -> None:
    p = subprocess.run(["java", "-cp", JAR, "tla2sany.SANY", module + ".tla"], cwd=spec_dir,
                       stdout=subprocess.PIPE, stderr=subprocess.STDOUT, text=True)
    if p.returncode != 0 or "error" in p.stdout.lower() and "Semantic errors" in p.stdout:
        raise TLCError("SANY failed on %s:\n%s" % (module, p.stdout[-3000:]))
