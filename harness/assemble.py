"""Driver for C17 (assemble_rtf)."""
from __future__ import annotations

import hashlib
import json
import os
import shutil
import tempfile

from common import setup_path

setup_path()
import colordocs  # noqa: E402

GEOM_KEYS = ("paperw", "paperh", "margl", "margr", "margt", "margb", "headery", "footery")


def build_file(f, d):
    import polars as pl
    import rtflite as rtf
    kw = {}
    page_kw = {"orientation": "landscape" if f["land"] else "portrait"}
    if f["hf"]:
        kw["rtf_page_header"] = rtf.RTFPageHeader(text="~PH%d~" % f["id"])
        kw["rtf_page_footer"] = rtf.RTFPageFooter(text="~PF%d~" % f["id"])
    if f.get("tail") == "para":
        # the document body ends with a paragraph group (source line below the table / figure)
        kw["rtf_source"] = rtf.RTFSource(text="~SRC%d~" % f["id"])
    if f["kind"] == "figure":
        figs = [colordocs.tiny_png(os.path.join(d, "f%d_%d.png" % (f["id"], k)), w=2 + k, h=2 + f["id"]) for k in range(f["pages"])]
        title = rtf.RTFTitle(text="~T%d~" % f["id"], **({"text_color": "red"} if f["color"] else {}))
        doc = rtf.RTFDocument(rtf_figure=rtf.RTFFigure(figures=figs, fig_width=1.0, fig_height=1.0), rtf_title=title,
                              rtf_page=rtf.RTFPage(**page_kw), **kw)
    else:
        n = 2 * f["pages"]
        df = pl.DataFrame({"a": ["f%dr%d" % (f["id"], r) for r in range(1, n + 1)], "b": ["v%d" % r for r in range(1, n + 1)]})
        body = rtf.RTFBody(**({"text_color": [["blue", "red"]]} if f["color"] else {}))
        doc = rtf.RTFDocument(df=df, rtf_body=body, rtf_page=rtf.RTFPage(nrow=2, **page_kw), rtf_title=None, rtf_column_header=[], **kw)
    return doc


def read_pages(data: bytes):
    from rtfreader import parse
    d = parse(data)
    pages = []
    for pg in d.pages:
        sig = []
        for b in pg.blocks:
            if b.kind == "para":
                if b.text:
                    sig.append(["p", b.text])
            elif b.kind == "row":
                sig.append(["r"] + [c.text for c in b.cells])
            elif b.kind == "pict":
                sig.append(["pict", b.fmt, hashlib.sha1(b.data).hexdigest()[:12], b.props.get("picw"), b.props.get("pich")])
        geom = []
        for k in GEOM_KEYS:
            v = pg.geom.get(k)
            geom.append(v[-1] if v else -1)
        pages.append({"sig": json.dumps(sig), "geom": geom, "land": bool(pg.landscape)})
    obs = dict(d.struct)
    obs["lexerrs"] = len(d.lexerrs)
    obs["ncolortbl"] = d.n_colortbl
    return pages, obs


def run_one(sc):
    import contextlib
    import io
    from rtflite import assemble_rtf
    files = sc["files"]
    tmp = tempfile.mkdtemp(prefix="rtflite-verif-asm-")
    rec = {"id": sc["id"], "files": files, "env": sc.get("env") or {}}
    try:
        paths = []
        inputs = []
        nmissing = 0
        raw = []
        for f in files:
            p = os.path.join(tmp, "in%d.rtf" % f["id"])
            if f["missing"]:
                nmissing += 1
                paths.append(p)
                continue
            if (sc.get("env") or {}).get("samepath") and f is files[-1] and raw and len(files) >= 2:
                # the very same path again
                paths.append(paths[0])
                raw.append(raw[0])
                inputs.append(dict(inputs[0]))
                continue
            if (sc.get("env") or {}).get("twin") and f is files[-1] and raw and len(files) >= 2:
                # the last input is a byte-for-byte copy of the first (the same divider page used twice)
                with open(p, "wb") as fh:
                    fh.write(raw[0])
            else:
                doc = build_file(f, tmp)
                with contextlib.redirect_stdout(io.StringIO()):
                    doc.write_rtf(p)
            data = open(p, "rb").read()
            raw.append(data)
            pages, obs = read_pages(data)
            inputs.append({"pages": [x["sig"] for x in pages], "geom": pages[0]["geom"], "digest": hashlib.sha1(data).hexdigest(),
                           "lines": classify_lines(data)})
            paths.append(p)
        out = os.path.join(tmp, "out.rtf")
        env = sc.get("env") or {}
        if env.get("rerun") and nmissing == 0 and raw:
            # an earlier call on the same paths while the first input held other bytes of the same length and
            # the same time stamp: every call must read its inputs anew
            st = os.stat(paths[0])
            alt = raw[0].replace(b"f1r", b"g1r").replace(b"~T1~", b"~U1~")
            if len(alt) == len(raw[0]) and alt != raw[0]:
                with open(paths[0], "wb") as fh:
                    fh.write(alt)
                os.utime(paths[0], ns=(st.st_atime_ns, st.st_mtime_ns))
                try:
                    assemble_rtf(paths, os.path.join(tmp, "earlier.rtf"))
                except Exception:  # noqa
                    pass
                with open(paths[0], "wb") as fh:
                    fh.write(raw[0])
                os.utime(paths[0], ns=(st.st_atime_ns, st.st_mtime_ns))
        if env.get("prior") == "failed" and nmissing == 0 and paths:
            # the process' previous call read the same inputs and then failed to create its output (the path is a directory)
            blocked = os.path.join(tmp, "blocked.rtf")
            os.mkdir(blocked)
            try:
                assemble_rtf(paths, blocked)
            except Exception:  # noqa
                pass
        elif env.get("prior") == "other" and nmissing == 0 and paths:
            try:
                assemble_rtf([paths[-1], paths[0]], os.path.join(tmp, "earlier2.rtf"))
            except Exception:  # noqa
                pass
        if env.get("stale") and files:
            # a longer file from an earlier run sits at the output path
            with open(out, "wb") as fh:
                fh.write(b"{\\rtf1 old report " + b"x" * 20000 + b"}")
        if env.get("alias") and nmissing == 0 and paths:
            out = paths[0]          # the output path is also the first input (accumulating into one file)
        outcome = "ok"
        try:
            assemble_rtf(paths, out)
        except FileNotFoundError:
            outcome = "FileNotFoundError"
        except Exception as ex:  # noqa
            outcome = "error:" + type(ex).__name__
        wrote = os.path.exists(out) and not ((env.get("alias") or env.get("stale")) and outcome != "ok")
        ev = []
        obs = {"final_depth": 0, "min_depth": 0, "top_groups": 1, "trailing": 0, "signature": True, "lexerrs": 0}
        outdigest = ""
        outlines = []
        if wrote:
            data = open(out, "rb").read()
            outdigest = hashlib.sha1(data).hexdigest()
            pages, o = read_pages(data)
            obs = {k: o[k] for k in ("final_depth", "min_depth", "top_groups", "trailing", "signature", "lexerrs")}
            ev = [{"sig": x["sig"], "geom": x["geom"]} for x in pages]
            outlines = classify_lines(data)
        rec["c"] = {"inputs": [{k: i[k] for k in ("pages", "geom", "digest")} for i in inputs] if nmissing == 0 else [],
                    "nmissing": nmissing, "outcome": outcome, "wrote": wrote, "obs": obs, "outdigest": outdigest}
        rec["ev"] = ev
        rec["outlines"] = outlines
        rec["inlines"] = [i["lines"] for i in inputs]
        return rec
    finally:
        shutil.rmtree(tmp, ignore_errors=True)


def classify_lines(data: bytes):
    """Classify the physical lines of a file written by rtflite into the line classes of
    spec/Assemble.tla (for conformance of the model's file layout, not for verdicts)."""
    out = []
    for ln in data.decode("utf-8", "replace").split("\n"):
        s = ln.rstrip("\r")
        if s.startswith("{\\rtf1"):
            out.append("sig")
        elif "fcharset" in s and "{\\fonttbl" in s:
            out.append("fontopen")
        elif "fcharset" in s:
            out.append("font")
        elif s.startswith("}{\\colortbl"):
            out.append("fontend_coloropen")
        elif s.startswith("{\\colortbl"):
            out.append("coloropen")
        elif s.startswith("\\red"):
            out.append("colorentry")
        elif s == "}":
            out.append("close?")       # fontend / colorclose / close: resolved by position
        elif s.startswith("{\\header") or s.startswith("{\\footer") or s.startswith("\\paperw"):
            # figure documents put header, footer and paper settings on one physical line
            if "{\\header" in s:
                out.append("hdr")
            if "{\\footer" in s:
                out.append("ftr")
            if "\\paperw" in s:
                out.append("paper")
        elif s.startswith("\\margl"):
            out.append("marg")
        elif s.strip() == "":
            out.append("blank")
        elif s.startswith("\\deff"):
            out.append("deff")
        elif s.strip() == "\\page":
            out.append("newpage")
        else:
            out.append("content")
    return out
