"""C18: exports are all-or-nothing and leave no debris."""
from __future__ import annotations

import json
import random
import shutil
import sys

import export
import family
from common import Ctx, MachineryError, pmap

JUDGE = ["C18_TargetTouchedLast", "C18_NothingBeside", "C18_FailureAtomic", "C18_Success", "C18_Raises", "C18_Completes"]
CONV = {"ok", "ok_empty", "raise_before", "raise_after", "ret_list", "ret_none", "ret_str", "ret_missing"}
TARGETS = {"absent", "old", "missingdir", "tilde"}
WRITERS = {"rtf", "docx", "html", "pdf"}


def _call_sites(writer, real=False):
    """(first instance index of every distinct call site, total number of calls)."""
    import os
    sites = {}
    n = {"n": 0}

    def tracer(frame, event, arg):
        if event == "call" and export.is_lib_call(frame):
            n["n"] += 1
            key = (os.path.basename(frame.f_code.co_filename), frame.f_code.co_name, frame.f_code.co_firstlineno)
            sites.setdefault(key, n["n"])
        return None
    import contextlib, io, tempfile
    root = tempfile.mkdtemp(prefix="rtflite-verif-exp-")
    old = tempfile.tempdir
    fake = None
    try:
        doc = export.make_doc()
        os.makedirs(os.path.join(root, "tmp"))
        tempfile.tempdir = os.path.join(root, "tmp")
        conv = export.StubConverter("ok")
        if real:
            import converter as cvt
            from rtflite.convert import LibreOfficeConverter
            os.makedirs(os.path.join(root, "lo"))
            fake = cvt.FakeEnv(os.path.join(root, "lo"), {"arg": "abs_ok", "onpath": "none", "ver": "7.1", "beh": "ok", "behat": 1})
            fake.__enter__()
            conv = LibreOfficeConverter(executable_path=fake.arg())
        sys.settrace(tracer)
        try:
            with contextlib.redirect_stdout(io.StringIO()):
                export._call(doc, writer, os.path.join(root, "o", "r." + export._ext(writer)), conv)
        finally:
            sys.settrace(None)
            tempfile.tempdir = old
    finally:
        if fake is not None:
            fake.__exit__(None, None, None)
        shutil.rmtree(root, ignore_errors=True)
    return sites, n["n"]


CONV_INV = ["TypeOK", "VersionFirst", "NoConvertAfterRefusal", "NoSilentOverwrite", "ReturnsOnlyExisting", "FailurePropagates"]
ALLARGS = {"none", "abs_ok", "abs_missing", "rel_ok", "rel_missing", "bare_ok", "bare_missing", "home_ok"}


def _converter_family(ctx, work, tier):
    """spec/Converter.tla: model-check the converter's design, then replay every scenario on the real
    LibreOfficeConverter against the fake program and validate the recorded invocations (ConvTrace.tla).
    Differences are model drift (the converter's own contract is not one of the listed properties); what
    the converter does to an export is judged by the C18 clauses through the 'real'/'onpath' scenarios."""
    import converter as cvt
    import tlc
    from common import write_json
    B = {False, True}
    ctor = dict(Args=ALLARGS, OnPaths={"none", "soffice", "libreoffice", "both"}, Versions={"7.1", "24.8", "7.0", "6.4", "garbage", "exit1"},
                Ops={"single"}, InMissSet={0}, OutDirs={"present"}, PreSet={0}, OverwriteSet={False}, Behaviours={"ok"}, BehAtSet={1})
    conv = dict(Args={"abs_ok"}, OnPaths={"none"}, Versions={"7.1"}, Ops={"single", "single_str", "batch2"}, InMissSet={0, 1, 2},
                OutDirs={"present", "missing"}, PreSet={0, 1, 2}, OverwriteSet=B, Behaviours={"ok", "fail_before", "fail_after", "silent"}, BehAtSet={1, 2})
    fams = [("converter-constructor", ctor), ("converter-convert", conv)]
    if tier == "thorough":
        both = dict(conv); both.update(Args={"none", "bare_ok", "home_ok"}, OnPaths={"libreoffice", "both"}, Versions={"24.8", "7.0"})
        fams.append(("converter-both", both))
    got = []
    for name, consts in fams:
        res = family.model_check(ctx, work, "Converter", consts, CONV_INV, [], name)
        if res.violated:
            raise MachineryError("Converter model violates %s\n%s" % (res.violated, res.counterexample[:1500]))
        got += family.generate(ctx, work, "Converter", consts, name)
    seen, items = set(), []
    for s in got:
        key = json.dumps(s["cv"], sort_keys=True)
        if key not in seen:
            seen.add(key)
            items.append({"id": len(items), "cv": s["cv"]})
    recs = pmap(cvt.run_one, items, chunk=8)
    traces = [{"id": r["id"], "cv": r["cv"], "ev": r["ev"], "obs": r["obs"]} for r in recs]
    # binding self-test: a trace with its first invocation removed must be rejected
    probe = next((dict(t) for t in traces if t["ev"]), None)
    if probe is not None:
        probe = dict(probe); probe["id"] = len(traces); probe["ev"] = probe["ev"][1:]
        traces.append(probe)
    tf = work.path("convtrace.json")
    write_json(tf, traces)
    cfg = work.cfg("convtrace.cfg", conv, spec="TSpec")
    res = tlc.run("ConvTrace", cfg, env={"TRACE_FILE": tf})
    ctx.add_tlc("validate:converter invocations[%d]" % len(traces), res)
    verdict = {j["id"]: j["bad"] for j in res.json_lines if isinstance(j, dict) and "id" in j}
    if len(verdict) != len(traces):
        raise MachineryError("converter trace validation: %d verdicts for %d traces" % (len(verdict), len(traces)))
    if probe is not None and not verdict[probe["id"]]:
        raise MachineryError("binding self-test failed: a converter trace with a removed invocation was accepted")
    ctx.traces += len(recs)
    nd = 0
    for r in recs:
        extra = []
        if r["obs"]["ctor"] == "constructed" and not r["obs"]["exe_is_file"]:
            extra.append("executable_path is not a file")
        if r["obs"]["result"] in ("path", "list") and not r["obs"]["returned_ok"]:
            extra.append("returned path is not <output_dir>/<stem>.<format>")
        if verdict[r["id"]] or extra:
            nd += 1
            ctx.model_drift("Converter %s: %s (observed %s, invocations %s)" % (json.dumps(r["cv"], sort_keys=True), "; ".join(list(verdict[r["id"]]) + extra),
                                                                            json.dumps(r["obs"]), json.dumps(r["ev"])))
    ctx.extra["converter_family"] = {"scenarios": len(recs), "accepted_by_ConvTrace": len(recs) - nd, "drift": nd,
                                     "constructor_outcomes": sorted({r["obs"]["ctor"] for r in recs}),
                                     "convert_outcomes": sorted({r["obs"]["result"] for r in recs}),
                                     "binding_self_test": "trace with a removed invocation rejected"}


def _judge(ctx, work, recs):
    traces = [{"id": r["id"], "c": r["c"], "ev": r["ev"]} for r in recs]
    verdicts = family.validate(ctx, work, "ExportTrace", traces, JUDGE, name="export")
    for r in recs:
        by = {}
        for b in verdicts.get(r["id"], []):
            by.setdefault(b["cl"], []).append(b["at"])
        for cl, ats in by.items():
            ctx.violation("%s fails for %s" % (cl, json.dumps({k: r["c"][k] for k in ("writer", "target0", "converter", "conv", "fault", "flavour", "fsfault", "outcome", "exc")})),
                          {"clause": cl, "at": min(ats), "scenario": {"sc": r["sc"]}, "observed": r["c"], "fs_events": r["ev"]})


def run(pid, tier, seed, replay=None):
    ctx = Ctx(pid, tier, seed, level="model_checking")
    work = family.Work()
    rng = random.Random(seed)
    try:
        if replay:
            rp = json.load(open(replay))
            rec = export.run_one({"id": 0, "sc": rp["scenario"]["sc"]})
            _judge(ctx, work, [rec])
            ctx.note_case("a", True); ctx.note_case("b", True); ctx.sample({"replayed": replay}); ctx.rule = "replay"
            return ctx.finish()
        have_lo = shutil.which("soffice") is not None or shutil.which("libreoffice") is not None
        sites, ncalls = _call_sites("docx")
        first = sorted(sites.values())
        ctx.extra["library_calls_per_export"] = ncalls
        ctx.extra["distinct_call_sites"] = len(first)
        rsites, rcalls = _call_sites("docx", real=True)
        first = sorted(set(first) | set(rsites.values()))
        if tier == "quick":
            faults = set(first)
        else:
            faults = set(first) | set(rng.sample(range(1, rcalls + 1), min(rcalls, 2500)))
        ctx.extra["library_calls_per_export_real_converter"] = rcalls
        base = dict(Writers=WRITERS, Targets0=TARGETS, ConvOutcomes=CONV | {"silent"}, Flavours={"base", "exc"}, HaveLibreOffice=have_lo, FsFaults=set(),
                    ConverterKinds={"stub", "default", "real", "onpath"}, PriorSet={"none", "export_edit"}, TNameSet={"std", "htm", "noext"})
        # MODEL: every fault point class x converter outcome x target state x writer
        mc = dict(base); mc.update(Faults={1, 2}, EncodeBeforeOpen=True)
        res = family.model_check(ctx, work, "Export", mc, ["AllOrNothing", "TargetOnlyByLastStep", "MalformedRaises"], [], "as-implemented")
        if res.violated:
            raise MachineryError("Export model violates %s\n%s" % (res.violated, res.counterexample[:1500]))
        mc2 = dict(mc); mc2["EncodeBeforeOpen"] = False
        res2 = family.model_check(ctx, work, "Export", mc2, ["AllOrNothing"], [], "deviation: target opened before encoding")
        if not res2.violated:
            raise MachineryError("vacuity: the model does not distinguish opening the target before encoding")
        ctx.extra["deviation_model_violates"] = res2.violated
        # GENERATE scenarios: quick = all writers x targets x outcomes without fault, faults on write_docx/write_rtf only
        scs = []
        g1 = dict(base); g1.update(Faults=set(), EncodeBeforeOpen=True)
        scs += family.generate(ctx, work, "Export", g1, "nofault")
        fw = {"docx", "rtf"} if tier == "quick" else WRITERS
        g2 = dict(base); g2.update(Writers=fw, Targets0={"old"} if tier == "quick" else {"old", "absent"}, Faults=faults, EncodeBeforeOpen=True,
                                   Flavours={"base", "exc"}, ConverterKinds={"stub", "default", "real"} if tier == "quick" else {"stub", "default", "real", "onpath"})
        got = family.generate(ctx, work, "Export", g2, "faults")
        scs += [s for s in got if s["sc"]["fault"] != 0]
        # crash points at file-system operations: the k-th mkdir / open-for-write / move of the export raises OSError
        g3 = dict(base); g3.update(Faults=set(), FsFaults=set(range(1, 13)), EncodeBeforeOpen=True, ConvOutcomes={"ok"})
        got3 = family.generate(ctx, work, "Export", g3, "fsfaults")
        scs += [s for s in got3 if s["sc"]["fsfault"] != 0 and s["sc"]["converter"] in ("stub", "real")]
        seen = set()
        items = []
        for s in scs:
            key = json.dumps(s["sc"], sort_keys=True)
            if key in seen:
                continue
            seen.add(key)
            items.append({"id": len(items), "sc": s["sc"], "pred": s["pc"]})
        recs = pmap(export.run_one, items, chunk=8)
        _judge(ctx, work, recs)
        _converter_family(ctx, work, tier)
        nd = 0
        absorbed = 0
        for it, r in zip(items, recs):
            ctx.note_case(json.dumps(it["sc"], sort_keys=True), it["sc"]["fault"] != 0 or it["sc"]["conv"] != "ok" or it["sc"]["target0"] != "absent")
            obs = r["c"]["outcome"]
            # the model allows both outcomes for an absorbed Exception fault; otherwise it predicts one
            if it["sc"]["fault"] and it["sc"]["flavour"] == "exc":
                if obs == "returned":
                    absorbed += 1
                continue
            if it["sc"]["fault"] and not r["c"]["fault_fired"]:
                continue
            if it["sc"].get("fsfault"):
                continue      # the model allows both outcomes (the operation may not exist, or the error may be absorbed by exist_ok)
            if obs != it["pred"]:
                nd += 1
                ctx.model_drift("C18 %s: model predicts %s, observed %s (%s)" % (json.dumps(it["sc"]), it["pred"], obs, r["c"]["exc"]))
        ctx.extra["conformance"] = {"compared_with_model_prediction": len(recs), "drift": nd, "exception_faults_absorbed_by_library": absorbed}
        ctx.extra["faults_injected"] = sum(1 for r in recs if r["c"]["fault_fired"])
        ctx.extra["fs_faults_injected"] = sum(1 for r in recs if r["c"]["fs_fired"])
        ctx.extra["fs_faults_raised"] = sum(1 for r in recs if r["c"]["fs_fired"] and r["c"]["outcome"] == "raised")
        if ctx.extra["faults_injected"] < 20:
            raise MachineryError("vacuity guard: too few faults injected")
        for r in recs[:2] + recs[-2:]:
            ctx.sample({"scenario": r["sc"], "outcome": r["c"]["outcome"], "exception": r["c"]["exc"], "fs_events": [(e["op"], e["where"]) for e in r["ev"]]})
        ctx.rule = ("scenarios enumerated by TLC from spec/Export.tla: writer x target state x converter x converter outcome without fault (exhaustive), "
                    "and a BaseException / Exception injected at the first instance of every distinct library call site%s; non-trivial = fault, "
                    "malformed converter outcome or pre-existing/missing target" % ("" if tier == "quick" else " plus 2500 sampled call instances, all four writers"))
        ctx.assumptions = ["no LibreOffice in the sandbox (%s): the converter is a stub object, or the real LibreOfficeConverter driving the fake program of harness/converter.py" % (not have_lo), "file-system events from sys.addaudithook",
                           "temporary files are looked for in a private tempfile.tempdir"]
        return ctx.finish()
    finally:
        work.close()
