"""Checks of the rendering-pipeline family (C02..C08) -- see DESIGN.md sections 3.6 and 5."""
from __future__ import annotations

import json
import random

import family
import pipeline
import tlc
from common import Ctx, MachineryError, pmap

BASE = dict(
    NSet={4}, Heights={1}, NrowSet={4}, Strategies={"plain"}, LevelSet={1}, HdrSet={"default"}, FootSet={"none"},
    SrcSet={"none"}, PlaceSet={"last"}, TitleSet={False}, SublineSet={False}, NewPageSet={False},
    PbRowSet={"column"}, PbHdrSet={True}, DivSet={"none"}, FontSet={1}, SizeSet={9}, PaperSet={"letter"},
    PgHFSet={0}, PFSet={"double"}, PLSet={"double"}, BFSet={"single"}, BLSet={"single"}, UTSet={""}, UBSet={""},
    NDataSet={2}, GPosSet={"first"}, RelWSet={"equal"}, HdrWSet={False}, UShapeSet={"scalar"}, DupSet={False}, HdrTupleSet={False},
)
# deviation flags: what the code under test does today / what the properties describe
IMPL = dict(ReserveDefaultHeader=False, BudgetContinuation=False, ChargeRenderedOnly=False, BorderByPage=True, TopOverrideByPosition=True)
INTENDED = dict(ReserveDefaultHeader=True, BudgetContinuation=True, ChargeRenderedOnly=True, BorderByPage=True, TopOverrideByPosition=False)

ALL_STRAT = {"plain", "pageby", "subline", "subpb"}
PL3 = {"first", "last", "all"}


def C(**kw):
    d = dict(BASE)
    d.update(kw)
    return d


# known-finding applicability predicates (see known_findings.json); evaluated on the scenario
APPLIES = {
    "hdr_default": lambda c, ev, at: c["hdr"] == "default",
    "spanning_pageby": lambda c, ev, at: pipeline.spanning(c),
    "nested_pageby": lambda c, ev, at: pipeline.spanning(c) and c["nlev"] > 1,
    "font_not_default": lambda c, ev, at: c.get("font", 1) != 1 or c.get("size", 9) != 9,
    "pageby_column_mode": lambda c, ev, at: pipeline.has_pb(c) and not pipeline.spanning(c),
    "subline": lambda c, ev, at: pipeline.has_sub(c),
    "user_top_vector": lambda c, ev, at: c.get("ushape", "scalar") != "scalar" and c.get("utop", "") != "",
    "hdr_inherits_after_removal": lambda c, ev, at: (pipeline.has_sub(c) or pipeline.spanning(c)) and c["hdr"] != "none"
                                                    and not c.get("hdrw", False),
}


def _texts_random(rng, n, ndata, convert):
    """Cell values for the C02 family: strings with blanks, ints, floats, nulls."""
    alpha = "abcdefghijklmnopqrstuvwxyzABCDEFGHIJKLMNOPQRSTUVWXYZ0123456789 .,;:!?'\"()[]+-*/=%&#@|~"
    if not convert:
        alpha += "^_<>"
    rows = []
    kinds = [rng.choice(["str", "str", "str", "int", "float", "bool", "f32", "date", "datetime"]) for _ in range(ndata)]
    for _ in range(n):
        row = []
        for k in range(ndata):
            if rng.random() < 0.12:
                row.append(None)
            elif kinds[k] == "int":
                row.append(rng.randint(-10**6, 10**6))
            elif kinds[k] == "float":
                row.append(rng.choice([0.5, -1.25, 3.0, 1e-7, 12345.678, float("nan"), 2.5e-5, 1e16, float(rng.randint(0, 99)) / 8]))
            elif kinds[k] == "f32":
                row.append(rng.choice([1.1, 0.1, -2.7, 3.0, 1e-5]))
            elif kinds[k] == "bool":
                row.append(rng.random() < 0.5)
            elif kinds[k] == "date":
                row.append("20%02d-%02d-%02d" % (rng.randint(0, 30), rng.randint(1, 12), rng.randint(1, 28)))
            elif kinds[k] == "datetime":
                row.append("20%02d-%02d-%02dT%02d:%02d:%02d" % (rng.randint(0, 30), rng.randint(1, 12), rng.randint(1, 28), rng.randint(0, 23), rng.randint(0, 59), rng.randint(0, 59))
                           + rng.choice(["", ".250000"]))
            else:
                ln = rng.choice([0, 1, 3, 8, 20, 60, 150])
                t = "".join(rng.choice(alpha) for _ in range(ln))
                if not convert and rng.random() < 0.3:
                    t += rng.choice([">=", "<=", "a^2", "x_1"])
                if rng.random() < 0.3:
                    t = "  " + t
                if rng.random() < 0.3:
                    t = t + "   "
                row.append(t)
        rows.append(row)
    return rows, kinds


def _o_c02(rng, c, variant):
    if variant == 0:
        return {}
    convert = variant == 1
    rows, kinds = _texts_random(rng, c["n"], c.get("ndata", 2), convert)
    # shadow: the process encoded the same frame with the opposite text_convert setting just before (a conversion result
    # remembered per text must not leak into a document that asked for the other treatment)
    return {"texts": rows, "kinds": kinds, "convert": convert, "shadow": rng.random() < 0.5}


def _o_c06(rng, c, variant):
    """variant 1: RTFBody(last_row=False) - a documented option of the body that has nothing to do with where title, footnote
    and source go."""
    return {"last_row": False} if variant == 1 else {}


def _o_c08(rng, c, variant):
    """variant 1: the document is constructed on a page of another table width and given the scenario's page afterwards."""
    return {"repage": True} if variant == 1 else {}


def _o_c03(rng, c, variant):
    """variant 1: the row heights come from a numeric column (Int64 / Float64 digits wrapping in a narrow column);
    variant 2: a group_by column whose label needs 2-3 lines (shown on the first row of a group and of every page)."""
    if variant == 1 and c.get("ndata", 2) >= 2:
        return {"numh": rng.choice(["int", "float"])}
    if variant == 2 and c.get("ndata", 2) >= 2:
        return {"gby": rng.choice([2, 3])}
    if variant == 3:
        return {"tcv": True}
    return {}


NP = {False, True}
DIV3 = {"none", "second", "first", "outer"}
DIVX = DIV3 | {"resume", "cycle", "collide"}       # + a value that returns after a divider / after another value
PR = {"column", "first_row"}
S3 = {"plain", "pageby", "subline"}
FS3 = {"none", "table", "para"}
STY = dict(PFSet={"double", "thick", "single"}, PLSet={"thick", "double", "dashed"}, BFSet={"dotted", "single", "wavy"},
           BLSet={"dashed", "single", "dotted"}, UTSet={"", "wavy", "single"}, UBSet={"", "triple", "single"})
STY1 = dict(PFSet={"double"}, PLSet={"thick"}, BFSet={"dotted"}, BLSet={"dashed"}, UTSet={"wavy"}, UBSet={"triple"})

PROPS = {
    "C02": dict(
        judge=["C02_Order", "C02_Text", "C02_Tag"], known={},
        model=dict(quick=C(NSet={0, 3}, Heights={1, 2}, NrowSet={2, 4}, Strategies=ALL_STRAT, LevelSet={1, 2}, NewPageSet=NP, PbRowSet=PR),
                   thorough=C(NSet={0, 1, 2, 3, 4}, Heights={1, 2}, NrowSet={2, 3, 5}, Strategies=ALL_STRAT, LevelSet={1, 2}, NewPageSet=NP,
                              PbRowSet=PR),
                   inv=["M_C02_Order"]),
        gen=dict(
            quick=[dict(consts=C(NSet={0, 1, 3}, Heights={1, 2}, NrowSet={2, 4}, Strategies=ALL_STRAT, LevelSet={1, 2}, NewPageSet=NP, PbRowSet=PR),
                        variants=1),
                   dict(consts=C(NSet={2, 5, 9, 14}, Heights={1, 2, 3}, NrowSet={1, 2, 3, 5, 9, 17}, Strategies=ALL_STRAT, LevelSet={1, 2},
                                 NewPageSet=NP, PbRowSet=PR, HdrSet={"default", "none", "explicit"}, FootSet=FS3, SrcSet={"none", "para"},
                                 PlaceSet=PL3, NDataSet={1, 2, 3}, GPosSet={"first", "middle", "last", "split", "rev"}, DivSet=DIVX | {"padkey"}), simulate=450, variants=3)],
            thorough=[dict(consts=C(NSet={0, 1, 2, 3, 4}, Heights={1, 2}, NrowSet={2, 3, 5}, Strategies=ALL_STRAT, LevelSet={1, 2}, NewPageSet=NP,
                                    PbRowSet=PR, HdrSet={"default"}, FootSet={"none"}), variants=1),
                      dict(consts=C(NSet={2, 5, 9, 14, 25, 40, 60}, Heights={1, 2, 3}, NrowSet={1, 2, 3, 5, 9, 17, 30, 50}, Strategies=ALL_STRAT,
                                    LevelSet={1, 2, 3}, NewPageSet=NP, PbRowSet=PR, HdrSet={"default", "none", "explicit", "explicit2"},
                                    FootSet=FS3, SrcSet=FS3, PlaceSet=PL3, NDataSet={1, 2, 3, 5},
                                    GPosSet={"first", "middle", "last", "split", "rev"}, DivSet=DIVX | {"padkey"}), simulate=7000, variants=3)]),
        opts=_o_c02,
        nontrivial=lambda c, pred: c["n"] >= 1,
    ),
    "C03": dict(
        judge=["C03_Budget", "C03_BudgetModuloKnown"],
        known={"C03_Budget": "C03_BudgetModuloKnown"},
        model=dict(quick=C(NSet={0, 3}, Heights={1, 2}, NrowSet={3, 4}, Strategies=S3, LevelSet={1, 2}, HdrSet={"none", "default", "explicit"},
                           FootSet={"none", "table"}, NewPageSet=NP, PbRowSet=PR),
                   thorough=C(NSet={0, 4}, Heights={1, 2}, NrowSet={3, 5}, Strategies=S3, LevelSet={1, 2}, HdrSet={"none", "default", "explicit"},
                              FootSet={"none", "table"}, NewPageSet=NP, PbRowSet=PR, PlaceSet={"last", "all"}),
                   inv=["M_C03_Budget"], inv_impl=["M_C03_BudgetModuloKnown"]),
        gen=dict(
            quick=[dict(consts=C(NSet={4}, Heights={1, 2}, NrowSet={3, 5}, Strategies=S3, LevelSet={1}, HdrSet={"default", "explicit"},
                                 FootSet={"none", "table"}, NewPageSet=NP, PbRowSet=PR, PlaceSet={"all"}, DivSet={"none", "resume"})),
                   # table-style footnote and source with every pair of placements, tables that just fit one page
                   dict(consts=C(NSet={3, 4, 5}, Heights={1}, NrowSet={6, 7}, Strategies={"plain"}, HdrSet={"explicit"}, FootSet={"table"},
                                 SrcSet={"table"}, PlaceSet=PL3)),
                   dict(consts=C(NSet={0, 1, 7, 12, 20}, Heights={1, 2, 3, 4, 6}, NrowSet={1, 2, 5, 8, 13, 21}, Strategies=ALL_STRAT,
                                 LevelSet={1, 2, 3}, HdrSet={"none", "default", "explicit", "explicit2"}, FootSet=FS3,
                                 SrcSet=FS3, NewPageSet=NP, PbRowSet=PR, PlaceSet=PL3, FontSet={1, 4, 6, 9}, SizeSet={6, 9, 12, 18, 24},
                                 PbHdrSet=NP, DivSet=DIVX, DupSet=NP), simulate=900),
                   # subline_by sections without repeated column headers, one and two header rows, every group layout
                   dict(consts=C(NSet={6}, Heights={1}, NrowSet={6, 7, 8}, Strategies={"subline", "subpb"}, HdrSet={"explicit", "explicit2"},
                                 PbHdrSet={False}, FootSet={"none"})),
                   # heights from a numeric column / a wrapping group_by label (variants 1, 2)
                   dict(consts=C(NSet={7, 12, 20}, Heights={1, 2, 3, 4}, NrowSet={5, 8, 13, 21}, Strategies=S3,
                                 LevelSet={1, 2}, HdrSet={"none", "default", "explicit"}, FootSet={"none", "table"},
                                 NewPageSet=NP, PbRowSet=PR, PlaceSet={"last", "all"}, NDataSet={2, 3}), simulate=250, variants=4)],
            thorough=[dict(consts=C(NSet={4}, Heights={1, 2, 3}, NrowSet={3, 4, 6}, Strategies=S3, LevelSet={1, 2},
                                    HdrSet={"none", "default", "explicit"}, FootSet={"none", "table"}, NewPageSet=NP, PbRowSet=PR, PlaceSet={"all"})),
                      dict(consts=C(NSet={7, 12, 20, 35}, Heights={1, 2, 3, 4}, NrowSet={5, 8, 13, 21, 34}, Strategies=ALL_STRAT,
                                    LevelSet={1, 2}, HdrSet={"none", "default", "explicit"}, FootSet={"none", "table"},
                                    NewPageSet=NP, PbRowSet=PR, PlaceSet={"last", "all"}, NDataSet={2, 3}), simulate=3000, variants=4),
                      dict(consts=C(NSet={4}, Heights={1, 2}, NrowSet={3, 4, 6}, Strategies={"pageby"}, LevelSet={1},
                                    HdrSet={"none", "default", "explicit"}, FootSet={"none", "table"}, NewPageSet=NP, PbRowSet=PR, PlaceSet={"all"},
                                    DivSet={"resume", "second"})),
                      dict(consts=C(NSet={0, 1, 7, 12, 20, 35, 60}, Heights={1, 2, 3, 4, 5, 6}, NrowSet={1, 2, 5, 8, 13, 21, 34, 50}, Strategies=ALL_STRAT,
                                    LevelSet={1, 2, 3}, HdrSet={"none", "default", "explicit", "explicit2"}, FootSet=FS3, SrcSet=FS3,
                                    NewPageSet=NP, PbRowSet=PR, PlaceSet=PL3, FontSet={1, 2, 3, 4, 5, 6, 7, 8, 9, 10},
                                    SizeSet={6, 8, 9, 10, 12, 14, 18, 24}, PbHdrSet=NP, DivSet=DIVX, DupSet=NP), simulate=10000)]),
        opts=_o_c03,
        nontrivial=lambda c, pred: pred is not None and pred and pred[-1]["p"] >= 2,
    ),
    "C04": dict(
        # "always when required" for capacity is the row budget: judged here modulo the recorded C03 findings
        judge=["C04_NonEmpty", "C04_Contiguous", "C04_Forced", "C04_OnlyWhenRequired", "C04_OnlyWhenRequiredModuloKnown",
               "C04_NoMix", "C04_PrefixStable", "C03_BudgetModuloKnown"],
        known={"C04_OnlyWhenRequired": "C04_OnlyWhenRequiredModuloKnown"},
        model=dict(quick=C(NSet={0, 4}, Heights={1, 2}, NrowSet={3, 5}, Strategies=S3, LevelSet={1, 2}, HdrSet={"explicit"},
                           FootSet={"none"}, NewPageSet=NP, PbRowSet=PR),
                   thorough=C(NSet={0, 3, 4}, Heights={1, 2, 3}, NrowSet={2, 3, 4, 6}, Strategies=S3, LevelSet={1, 2}, HdrSet={"none", "explicit"},
                              FootSet={"none"}, NewPageSet=NP, PbRowSet=PR),
                   inv=["M_C04_NonEmpty", "M_C04_Contiguous", "M_C04_Forced", "M_C04_OnlyWhenRequired", "M_C04_NoMix"],
                   inv_impl=["M_C04_NonEmpty", "M_C04_Contiguous", "M_C04_Forced", "M_C04_OnlyWhenRequiredModuloKnown", "M_C04_NoMix"],
                   props=["PagesMonotone"]),
        gen=dict(
            quick=[dict(consts=C(NSet={4}, Heights={1, 2}, NrowSet={3, 4, 6}, Strategies=S3, LevelSet={1}, HdrSet={"none", "explicit"},
                                 FootSet={"none"}, NewPageSet=NP, PbRowSet=PR, DivSet={"none", "second", "resume", "cycle", "nullkey"}), prefixes=0.25),
                   dict(consts=C(NSet={5, 6, 7, 11}, Heights={1, 2, 3}, NrowSet={2, 3, 6, 10, 17, 30}, Strategies=ALL_STRAT, LevelSet={1, 2, 3},
                                 HdrSet={"none", "default", "explicit", "explicit2"}, FootSet=FS3, SrcSet=FS3, NewPageSet=NP, PbRowSet=PR,
                                 PlaceSet=PL3, PbHdrSet=NP, DivSet=DIVX | {"nullkey"}, DupSet=NP, GPosSet={"first", "middle", "split"}), simulate=700, prefixes=0.3)],
            thorough=[dict(consts=C(NSet={2, 3, 4}, Heights={1, 2, 3}, NrowSet={2, 3, 4, 6}, Strategies=S3, LevelSet={1, 2}, HdrSet={"none", "explicit"},
                                    FootSet={"none"}, NewPageSet=NP, PbRowSet=PR), prefixes=0.1),
                      dict(consts=C(NSet={6, 7, 11, 19, 30}, Heights={1, 2, 3}, NrowSet={2, 3, 6, 10, 17, 30}, Strategies=ALL_STRAT, LevelSet={1, 2, 3},
                                    HdrSet={"none", "default", "explicit", "explicit2"}, FootSet=FS3, SrcSet=FS3, NewPageSet=NP, PbRowSet=PR,
                                    PlaceSet=PL3, PbHdrSet=NP, DivSet=DIVX | {"nullkey"}, DupSet=NP, GPosSet={"first", "middle", "split"}), simulate=9000, prefixes=0.2)]),
        nontrivial=lambda c, pred: pred is not None and pred and pred[-1]["p"] >= 2,
    ),
    "C05": dict(
        # a divider must not cost page capacity either: early breaks are judged modulo the recorded C04 findings
        judge=["C05_Heads", "C05_NotStranded", "C05_NoHeadsWhenColumn", "C05_Subline", "C05_DividerKeepsRow", "C04_OnlyWhenRequiredModuloKnown"], known={},
        model=dict(quick=C(NSet={0, 4}, Heights={1}, NrowSet={3, 4}, Strategies={"pageby", "subline", "subpb"}, LevelSet={1, 2},
                           HdrSet={"none", "explicit"}, NewPageSet=NP, PbRowSet=PR, DivSet={"none", "second", "outer"}),
                   thorough=C(NSet={0, 3, 5}, Heights={1}, NrowSet={3, 4, 6}, Strategies={"pageby", "subline", "subpb"}, LevelSet={1, 2},
                              HdrSet={"none", "explicit"}, NewPageSet=NP, PbRowSet=PR, DivSet={"none", "second", "outer"}, PbHdrSet=NP),
                   inv=["M_C05_Heads", "M_C05_NotStranded", "M_C05_NoHeadsWhenColumn", "M_C05_Subline", "M_C05_DividerKeepsRow"]),
        gen=dict(
            quick=[dict(consts=C(NSet={1, 4}, Heights={1}, NrowSet={3, 5}, Strategies={"pageby", "subline", "subpb"}, LevelSet={1, 2},
                                 HdrSet={"explicit"}, NewPageSet=NP, PbRowSet=PR, DivSet=DIV3)),
                   dict(consts=C(NSet={4}, Heights={1}, NrowSet={3, 5, 30}, Strategies={"subline"}, HdrSet={"explicit", "none"}, DivSet={"collide", "cycle"})),
                   dict(consts=C(NSet={6, 9, 15}, Heights={1, 2}, NrowSet={3, 4, 5, 8, 12, 30}, Strategies={"pageby", "subline", "subpb"},
                                 LevelSet={1, 2, 3}, HdrSet={"none", "explicit", "default"}, FootSet={"none", "table"},
                                 NewPageSet=NP, PbRowSet=PR, DivSet=DIVX, PbHdrSet=NP, GPosSet={"first", "rev", "split"}), simulate=700)],
            thorough=[dict(consts=C(NSet={1, 3, 5}, Heights={1}, NrowSet={3, 4, 6}, Strategies={"pageby", "subline", "subpb"}, LevelSet={1, 2},
                                    HdrSet={"none", "explicit"}, NewPageSet=NP, PbRowSet=PR, DivSet=DIV3, PbHdrSet={True})),
                      dict(consts=C(NSet={6, 9, 15, 25, 40}, Heights={1, 2}, NrowSet={3, 4, 5, 8, 12, 30}, Strategies={"pageby", "subline", "subpb"},
                                    LevelSet={1, 2, 3}, HdrSet={"none", "explicit", "default"}, FootSet={"none", "table"},
                                    NewPageSet=NP, PbRowSet=PR, DivSet=DIVX, PbHdrSet=NP, GPosSet={"first", "rev", "split"}), simulate=9000)]),
        nontrivial=lambda c, pred: pred is not None and any(e["k"] in ("head", "subhead") for e in pred),
    ),
    "C06": dict(
        judge=["C06_Order", "C06_Placement", "C06_ColHdr", "C06_Break", "C06_Preamble"], known={},
        model=dict(quick=C(NSet={1, 4}, Heights={1}, NrowSet={3, 20}, Strategies={"plain", "subline"}, HdrSet={"none", "default"},
                           FootSet=FS3, SrcSet={"none", "table"}, PlaceSet=PL3, TitleSet={True}, SublineSet={True}, PbHdrSet=NP),
                   thorough=C(NSet={1, 4}, Heights={1}, NrowSet={3, 20}, Strategies=S3, HdrSet={"none", "default"}, FootSet=FS3, SrcSet=FS3,
                              PlaceSet=PL3, TitleSet={True}, SublineSet=NP, PbHdrSet=NP),
                   inv=["M_C06_Order", "M_C06_Placement", "M_C06_ColHdr"]),
        gen=dict(
            quick=[dict(consts=C(NSet={0, 1, 3}, Heights={1}, NrowSet={3, 20}, Strategies={"plain"}, HdrSet={"none", "default"},
                                 FootSet={"none", "table"}, SrcSet={"none", "para"}, PlaceSet=PL3, TitleSet={True}, SublineSet={True}, PbHdrSet=NP)),
                   dict(consts=C(NSet={0}, Heights={1}, NrowSet={3}, Strategies=S3, HdrSet={"none", "default"}, FootSet=FS3, SrcSet=FS3, PlaceSet=PL3,
                                 TitleSet={True}, SublineSet={True})),
                   # every paper / orientation spelling on a table of several pages
                   dict(consts=C(NSet={5}, Heights={1}, NrowSet={3}, Strategies={"plain", "subline"}, HdrSet={"default"},
                                 PaperSet={"letter", "letterm", "landscape", "a4", "a4land", "a4landp", "custom"}, PgHFSet={0, 3, 15})),
                   dict(consts=C(NSet={0, 1, 5, 8}, Heights={1}, NrowSet={3, 4, 6, 20}, Strategies=S3, HdrSet={"none", "default", "explicit", "explicit2"},
                                 FootSet=FS3, SrcSet=FS3, PlaceSet=PL3, TitleSet=NP, SublineSet=NP, PbHdrSet=NP, HdrWSet=NP, HdrTupleSet=NP,
                                 PaperSet={"letter", "letterm", "landscape", "a4", "a4land", "a4landp", "custom"}, PgHFSet={0, 1, 2, 3, 5, 10, 15}), simulate=900, variants=2)],
            thorough=[dict(consts=C(NSet={1, 5}, Heights={1}, NrowSet={3, 4, 20}, Strategies=S3, HdrSet={"none", "default"}, FootSet=FS3, SrcSet=FS3,
                                    PlaceSet=PL3, TitleSet={True}, SublineSet={True}, PbHdrSet=NP)),
                      dict(consts=C(NSet={0}, Heights={1}, NrowSet={3}, Strategies=S3, HdrSet={"none", "default"}, FootSet=FS3, SrcSet=FS3, PlaceSet=PL3,
                                    TitleSet={True}, SublineSet={True})),
                      dict(consts=C(NSet={0, 1, 5, 12}, Heights={1, 2}, NrowSet={3, 4, 6, 20}, Strategies=ALL_STRAT,
                                    HdrSet={"none", "default", "explicit", "explicit2"}, FootSet=FS3, SrcSet=FS3, PlaceSet=PL3, TitleSet=NP,
                                    SublineSet=NP, PbHdrSet=NP, PaperSet={"letter", "letterm", "landscape", "a4", "a4land", "a4landp", "custom"},
                                    PgHFSet={0, 1, 2, 3, 5, 10, 15}, HdrWSet=NP, HdrTupleSet=NP), simulate=9000, variants=2)]),
        opts=_o_c06,
        nontrivial=lambda c, pred: pred is not None and pred and pred[-1]["p"] >= 2,
    ),
    "C07": dict(
        judge=["C07_DocTop", "C07_DocBottom", "C07_PageBottom", "C07_DataTop", "C07_DataTopModuloKnown", "C07_Interior"],
        known={"C07_DataTop": "C07_DataTopModuloKnown"},
        model=dict(quick=C(NSet={3}, Heights={1}, NrowSet={3, 7}, Strategies={"plain", "pageby"}, HdrSet={"none", "explicit"},
                           FootSet=FS3, SrcSet=FS3, PlaceSet=PL3, UShapeSet={"scalar", "col"}, **STY1),
                   thorough=C(NSet={4}, Heights={1}, NrowSet={3, 4, 7}, Strategies={"plain", "pageby"}, HdrSet={"none", "explicit"},
                              FootSet=FS3, SrcSet=FS3, PlaceSet=PL3, PFSet={"double"}, PLSet={"thick"}, BFSet={"dotted"}, BLSet={"dashed"},
                              UTSet={"", "wavy"}, UBSet={"", "triple"}),
                   inv=["M_C07_DocTop", "M_C07_DocBottom", "M_C07_PageBottom", "M_C07_DataTop", "M_C07_Interior"],
                   inv_impl=["M_C07_DocTop", "M_C07_DocBottom", "M_C07_PageBottom", "M_C07_DataTopModuloKnown", "M_C07_Interior"]),
        gen=dict(
            quick=[dict(consts=C(NSet={3}, Heights={1}, NrowSet={3, 7}, Strategies={"plain", "pageby"}, HdrSet={"none", "explicit"},
                                 FootSet=FS3, SrcSet=FS3, PlaceSet=PL3, **STY1)),
                   dict(consts=C(NSet={1, 4, 6}, Heights={1, 2}, NrowSet={3, 4, 7, 30}, Strategies=S3,
                                 HdrSet={"none", "explicit", "default", "explicit2"}, FootSet=FS3, SrcSet=FS3, PlaceSet=PL3, NewPageSet=NP,
                                 PbRowSet=PR, PbHdrSet=NP, UShapeSet={"scalar", "col", "matrix", "rowpat"}, **STY), simulate=800)],
            thorough=[dict(consts=C(NSet={4}, Heights={1}, NrowSet={3, 4, 7}, Strategies={"plain", "pageby"}, HdrSet={"none", "explicit"},
                                    FootSet=FS3, SrcSet=FS3, PlaceSet=PL3, PFSet={"double"}, PLSet={"thick"}, BFSet={"dotted"}, BLSet={"dashed"},
                                    UTSet={"", "wavy"}, UBSet={"", "triple"})),
                      dict(consts=C(NSet={1, 4, 6, 13}, Heights={1, 2}, NrowSet={3, 4, 7, 30}, Strategies=ALL_STRAT, LevelSet={1, 2},
                                    HdrSet={"none", "explicit", "default", "explicit2"}, FootSet=FS3, SrcSet=FS3, PlaceSet=PL3, NewPageSet=NP,
                                    PbRowSet=PR, PbHdrSet=NP, UShapeSet={"scalar", "col", "matrix", "rowpat"}, **STY), simulate=12000)]),
        nontrivial=lambda c, pred: pred is not None and pred and pred[-1]["p"] >= 2,
    ),
    "C08": dict(
        judge=["C08_RightEdge", "C08_Proportional", "C08_HeaderAligned", "C08_SingleCell"], known={},
        model=None,
        gen=dict(
            quick=[# wide tables (rounding must not accumulate over many columns): every width pattern, exhaustively
                   dict(consts=C(NSet={2}, Heights={1}, NrowSet={30}, Strategies={"plain", "pageby"}, LevelSet={1}, HdrSet={"default", "explicit"},
                                 FootSet={"none", "table"}, NDataSet={7, 8, 9, 12}, RelWSet={"equal", "asc", "mixed", "tenths", "ascdisp", "mixeddisp"}, HdrWSet=NP,
                                 PaperSet={"letter", "landscape", "custom"})),
                   dict(consts=C(NSet={3}, Heights={1}, NrowSet={3, 30}, Strategies=ALL_STRAT, LevelSet={1, 2}, NewPageSet=NP, PbRowSet=PR,
                                 HdrSet={"none", "default", "explicit", "explicit2"}, FootSet={"none", "table"}, SrcSet={"none", "table"},
                                 NDataSet={1, 2, 3, 4, 6}, GPosSet={"first", "middle", "last", "split"}, RelWSet={"equal", "asc", "mixed", "tenths", "ascdisp", "mixeddisp"},
                                 HdrWSet=NP, HdrTupleSet=NP, PaperSet={"letter", "landscape", "custom", "widecol"}), simulate=1100, variants=2)],
            thorough=[dict(consts=C(NSet={2}, Heights={1}, NrowSet={30}, Strategies={"plain", "pageby"}, LevelSet={1}, HdrSet={"default", "explicit"},
                                    FootSet={"none", "table"}, NDataSet={7, 8, 9, 10, 11, 12}, RelWSet={"equal", "asc", "mixed", "tenths", "ascdisp", "mixeddisp"}, HdrWSet=NP,
                                    PaperSet={"letter", "landscape", "a4", "custom"})),
                      dict(consts=C(NSet={3, 9}, Heights={1}, NrowSet={3, 30}, Strategies=ALL_STRAT, LevelSet={1, 2, 3}, NewPageSet=NP, PbRowSet=PR,
                                    HdrSet={"none", "default", "explicit", "explicit2"}, FootSet={"none", "table"}, SrcSet={"none", "table"},
                                    NDataSet={1, 2, 3, 4, 6, 9, 12}, GPosSet={"first", "middle", "last", "split"},
                                    RelWSet={"equal", "asc", "mixed", "tenths", "ascdisp", "mixeddisp"}, HdrWSet=NP, HdrTupleSet=NP,
                                    PaperSet={"letter", "landscape", "a4", "custom", "widecol"}), simulate=11000, variants=2)]),
        opts=_o_c08,
        nontrivial=lambda c, pred: c.get("ndata", 2) + (c["nlev"] if pipeline.has_pb(c) else 0) >= 2,
    ),
}

LIMITS = {"quick": 12000, "thorough": 200000}
MULTI_JUDGE = {"C02": ["M02_Order", "M02_Text"], "C07": ["M07_DocTop", "M07_DocBottom"], "C08": ["M08_RightEdge", "M08_Proportional", "M08_HeaderAligned"]}


def _depth(consts):
    return 50 + 5 * max(consts["NSet"])


def _scenarios(ctx, work, spec, tier, rng):
    out = []
    for gi, g in enumerate(spec["gen"][tier]):
        consts = dict(g["consts"])
        consts.update(IMPL)
        if g.get("simulate"):
            got = family.generate(ctx, work, "Pipeline", consts, "gen%d" % gi, simulate_num=g["simulate"],
                                  depth=_depth(consts), seed=ctx.seed + gi)
        else:
            sz = space_size(consts)
            if sz > LIMITS[tier]:
                raise MachineryError("generator configuration %d too large: %d scenarios" % (gi, sz))
            got = family.generate(ctx, work, "Pipeline", consts, "gen%d" % gi)
            if len(got) != sz:
                raise MachineryError("generator %d emitted %d scenarios, expected %d" % (gi, len(got), sz))
            ctx.extra.setdefault("exhaustive_families_replayed_whole", []).append(len(got))
        # de-duplicate (simulation may repeat a scenario)
        seen = set()
        for s in got:
            key = json.dumps(s["cfg"], sort_keys=True)
            if key in seen:
                continue
            seen.add(key)
            nv = g.get("variants", 1)
            for v in range(nv):
                o = {}
                if spec.get("opts"):
                    o = spec["opts"](rng, s["cfg"], v)
                if g.get("simulate") and rng.random() < 0.3:
                    # a sibling document (one setting changed) is encoded by the same process just before
                    o = dict(o)
                    o["sibling"] = rng.choice(["nrow", "paper", "font", "rows"])
                if g.get("prefixes") and rng.random() < g["prefixes"] and s["cfg"]["n"] >= 2:
                    o = dict(o)
                    o["prefixes"] = True
                out.append({"c": s["cfg"], "o": o, "pred": s["out"] if not (o.get("texts") or o.get("numh") or o.get("gby") or o.get("tcv")) else None})
    for i, s in enumerate(out):
        s["id"] = i
    return out


def _judge_records(ctx, work, spec, recs, by_id):
    """Validate recorded traces with TLC and classify; returns number of violations."""
    ok = [{"id": r["id"], "c": r["c"], "ev": r["ev"]} for r in recs if r["outcome"] == "ok"]
    verdicts = family.validate(ctx, work, "PipeTrace", ok, spec["judge"])
    modulo = set(spec["known"].values())
    for r in recs:
        if r["outcome"] != "ok":
            # the constructor/encoder refused a configuration of the property's quantifier
            ctx.violation("encode refused a scenario of the property's quantifier: %s" % r["outcome"],
                          {"scenario": {"c": by_id[r["id"]]["c"], "o": by_id[r["id"]]["o"]}, "outcome": r["outcome"]})
            continue
        bad = verdicts.get(r["id"], [])
        failing = {}
        for b in bad:
            failing.setdefault(b["cl"], []).append(b["at"])
        for cl, ats in failing.items():
            if cl in modulo:
                continue
            for at in ats:
                attributed = []
                for f in ctx.known:
                    if f.get("clause") != cl:
                        continue
                    ap = APPLIES.get(f.get("applies", ""), None)
                    if ap is None or not ap(r["c"], r["ev"], at):
                        continue
                    mod = f.get("modulo") or spec["known"].get(cl)
                    if mod and at in failing.get(mod, []):
                        continue
                    attributed.append(f)
                if attributed:
                    for f in attributed:
                        ctx.known_finding(f["id"], f["text"])
                else:
                    sc = by_id[r["id"]]
                    ev = r["ev"]
                    ctx.violation("%s fails at position %d (event %s)" % (cl, at, json.dumps(ev[at - 1]) if at <= len(ev) else "end of document"),
                                  {"clause": cl, "at": at, "scenario": {"c": sc["c"], "o": sc["o"]},
                                   "trace": ev, "derived": {k: v for k, v in r["c"].items() if k not in ("rows",)}})
    return verdicts


def _apalache_budget(ctx, work):
    """spec/BudgetInd.tla: the intended budget rule as an inductive invariant over unbounded integers (every nrow, every
    sequence of row heights and heading counts), discharged by Apalache: Init => IndInv and IndInv /\\ Next => IndInv'.
    As a non-vacuity control the stronger, false invariant 'fill <= avail' must be refuted."""
    import os
    import shutil
    import subprocess
    import time
    exe = shutil.which("apalache-mc")
    if not exe:
        ctx.extra["apalache_inductive_budget"] = "apalache-mc not found: skipped"
        return
    spec_dir = os.path.join(os.path.dirname(os.path.dirname(os.path.abspath(__file__))), "spec")
    out = work.path("apalache")
    runs = [("Init => IndInv", ["--init=Init", "--inv=IndInv", "--length=0"], True),
            ("IndInv /\\ Next => IndInv'", ["--init=IndInit", "--inv=IndInv", "--length=1"], True),
            ("control: IndInv /\\ Next => (fill <= avail)' must fail", ["--init=IndInit", "--inv=NoException", "--length=1"], False)]
    res = []
    for name, args, want_ok in runs:
        t0 = time.time()
        p = subprocess.run([exe, "check"] + args + ["--out-dir=" + out, "BudgetInd.tla"], cwd=spec_dir, stdout=subprocess.PIPE, stderr=subprocess.STDOUT,
                           text=True, timeout=600)
        ok = "EXITCODE: OK" in p.stdout
        err = "EXITCODE: ERROR (12)" in p.stdout       # invariant violation
        if not ok and not err:
            raise MachineryError("apalache-mc failed on BudgetInd (%s):\n%s" % (name, p.stdout[-1500:]))
        if ok != want_ok:
            raise MachineryError("BudgetInd: %s - expected %s, got %s" % (name, "proved" if want_ok else "refuted", "proved" if ok else "refuted"))
        res.append({"obligation": name, "outcome": "no error" if ok else "counterexample (as expected)", "wall_s": round(time.time() - t0, 1)})
    ctx.extra["apalache_inductive_budget"] = res


FB_INV = ["TypeOK", "Tiling", "Budget", "NoMix", "OnlyWhenRequired"]


def _findbreaks_family(ctx, work, tier):
    """spec/FindBreaks.tla: the public r2rtf-compatible splitter PageBreakCalculator.find_page_breaks.  Its design
    properties (tiling, budget, no mixed groups, breaks only when required) are model-checked; every behaviour is then
    replayed on the real method (spec -> code).  The documents of C04 are paginated by the strategies, not by this
    method, so a difference here is model drift, not a verdict."""
    import findbreaks
    consts = dict(NSet={0, 1, 4} if tier == "quick" else {0, 1, 2, 4, 5, 6}, Heights={1, 2, 3}, AvailSet={1, 2, 3, 5}, BoolSet={False, True})
    res = family.model_check(ctx, work, "FindBreaks", consts, FB_INV, [], "find_page_breaks")
    if res.violated:
        raise MachineryError("FindBreaks model violates %s\n%s" % (res.violated, res.counterexample[:1200]))
    got = family.generate(ctx, work, "FindBreaks", consts, "find_page_breaks")
    items = [{"id": i, "sc": g["sc"], "pages": g["pages"], "additional": i % 3} for i, g in enumerate(got)]
    recs = pmap(findbreaks.run_one, items, chunk=128)
    bad = [r for r in recs if r["diff"]]
    for r in bad[:20]:
        ctx.model_drift("find_page_breaks %s: %s" % (json.dumps(r["sc"], sort_keys=True), r["diff"]))
    ctx.extra["find_page_breaks_family"] = {"behaviours_replayed": len(recs), "drift": len(bad), "laws_model_checked": FB_INV[1:]}


def run(pid, tier, seed, replay=None):
    spec = PROPS[pid]
    ctx = Ctx(pid, tier, seed)
    work = family.Work()
    rng = random.Random(seed)
    try:
        if replay:
            return _replay(ctx, work, spec, replay)
        # 2. MODEL
        if spec.get("model"):
            m = spec["model"]
            mc = m[tier]
            if space_size(mc) > LIMITS[tier]:
                raise MachineryError("model configuration too large: %d" % space_size(mc))
            ci = dict(mc); ci.update(INTENDED)
            res = family.model_check(ctx, work, "Pipeline", ci, m["inv"], m.get("props", []), "intended")
            if res.violated:
                raise MachineryError("the intended design violates %s in the model:\n%s" % (res.violated, res.counterexample[:2500]))
            cc = dict(mc); cc.update(IMPL)
            res = family.model_check(ctx, work, "Pipeline", cc, m.get("inv_impl", m["inv"]), m.get("props", []), "as-implemented")
            if res.violated:
                # a model-level counterexample is not a verdict (R1): the scenario family below replays it
                ctx.extra["model_counterexample"] = {"violated": res.violated, "trace": res.counterexample[:1500]}
                print("NOTE: as-implemented model violates %s; the replayed scenarios decide." % res.violated)
        # witnesses of the recorded findings are replayed in every run: a finding whose witness no longer
        # fails prints no KNOWN-FINDING line (R1)
        wit = [{"id": -1 - i, "c": f["witness_cfg"], "o": {}, "pred": None} for i, f in enumerate(ctx.known) if f.get("witness_cfg")]
        if wit:
            wrecs = [pipeline.run_one(w) for w in wit]
            before = dict(ctx.known_seen)
            _judge_records(ctx, work, spec, wrecs, {w["id"]: w for w in wit})
            ctx.extra["known_finding_witnesses"] = {f["id"]: ("reproduces" if ctx.known_seen.get(f["id"], 0) > before.get(f["id"], 0) else "no longer reproduces")
                                                    for f in ctx.known if f.get("witness_cfg")}
        # 3. GENERATE
        scs = _scenarios(ctx, work, spec, tier, rng)
        if len(scs) < 20:
            raise MachineryError("scenario generator produced only %d scenarios" % len(scs))
        by_id = {s["id"]: s for s in scs}
        # 4. RUN
        recs = pmap(pipeline.run_one, scs, chunk=8)
        # 5. VALIDATE + 6. CLASSIFY
        _judge_records(ctx, work, spec, recs, by_id)
        ndrift = 0
        npred = 0
        for r in recs:
            sc = by_id[r["id"]]
            ctx.note_case(json.dumps(sc["c"], sort_keys=True) + json.dumps(sc["o"], sort_keys=True, default=str),
                          spec["nontrivial"](sc["c"], sc["pred"]))
            if sc["pred"] is not None and r.get("pred_valid", True):
                npred += 1
            if "drift" in r:
                ndrift += 1
                ctx.model_drift("scenario %d: first difference at event %d: predicted %s, observed %s; cfg=%s"
                                % (r["id"], r["drift"]["at"], r["drift"]["pred"], r["drift"]["obs"], json.dumps(sc["c"], sort_keys=True)))
        ctx.extra["conformance"] = {"compared_with_model_prediction": npred, "drift": ndrift}
        if pid == "C04":
            _findbreaks_family(ctx, work, tier)
        if pid == "C03":
            _apalache_budget(ctx, work)
        if pid in MULTI_JUDGE:
            # multi-section documents: the clauses of this property that the statement extends to them
            import multisec
            # (three sections in the thorough tier, with two row counts and two column counts: the product stays near 10^5)
            mconsts = dict(MaxSec=3 if tier == "thorough" else 2, RowSet={0, 2} if tier == "thorough" else {0, 1, 3},
                           ColSet={1, 3} if tier == "thorough" else {1, 2, 3}, HdrSet={"explicit", "none"},
                           FootSet={"none", "table", "para"} if tier == "thorough" else {"none", "table"}, BoolSet={False, True}, NrowSet={3, 40},
                           BodySet={"own", "shared", "sharedw"}, PbSet={"none", "rot"})
            mgot = family.generate(ctx, work, "MultiSec", mconsts, "multisec")
            if pid == "C07":
                # the border clauses speak about tables with rows: sections without rows are left to C01/C02
                mgot = [g for g in mgot if all(sec["n"] > 0 for sec in g["secs"]) and g["opts"].get("pb", "none") == "none"]
            mitems = [{"id": k, "secs": g["secs"], "opts": g["opts"], "pred": g["out"]} for k, g in enumerate(mgot)]
            if tier == "quick" and len(mitems) > 1500:
                mitems = mitems[::max(1, len(mitems) // 1500)]
                for k, it in enumerate(mitems):
                    it["id"] = k
            mrecs = pmap(multisec.run_one, mitems, chunk=8)
            okm = [r for r in mrecs if r["outcome"] == "ok"]
            mv = family.validate(ctx, work, "MultiTrace", [{"id": r["id"], "c": r["c"], "ev": r["ev"]} for r in okm], MULTI_JUDGE[pid], name="multi")
            for r in mrecs:
                ctx.note_case("multi" + json.dumps(r["cfg"], sort_keys=True), True)
                if r["outcome"] != "ok":
                    ctx.violation("multi-section encode failed: %s" % r["outcome"], {"scenario": {"multi": r["cfg"]}})
                    continue
                by = {}
                for b in mv.get(r["id"], []):
                    by.setdefault(b["cl"], []).append(b["at"])
                for cl, ats in by.items():
                    at = min(ats)
                    ctx.violation("%s fails at table row %d of a multi-section document: %s" % (cl, at, json.dumps(r["ev"][at - 1]) if at <= len(r["ev"]) else "end"),
                                  {"clause": cl, "at": at, "scenario": {"multi": r["cfg"]}, "rows": r["ev"][:30]})
                if "drift" in r:
                    ctx.model_drift("multi-section %s: %s" % (json.dumps(r["cfg"]), r["drift"]))
            ctx.extra["multi_section_documents"] = len(mrecs)
        if pid == "C06":
            # figure documents with 1..n figures: captions per placement option, and every page after
            # the first begins with a break restating the geometry (spec/Figure.tla, spec/FigTrace.tla)
            import check_figure
            import figure16
            fitems = check_figure.scenarios(ctx, work, tier, seed)
            if tier == "quick":
                fitems = fitems[:500]
            frecs = pmap(figure16.run_one, fitems, chunk=8)
            for it, r in zip(fitems, frecs):
                r["seed"], r["sizes"] = it["seed"], it["sizes"]
                ctx.note_case("fig" + json.dumps(it["c"], sort_keys=True), it["c"]["n"] >= 2)
            check_figure._judge(ctx, work, frecs, ["C06_FigBreak", "C06_FigSubline", "C16_Captions"])
            ctx.extra["figure_documents"] = len(frecs)
        multi = sum(1 for s in scs if s["pred"] and s["pred"][-1]["p"] >= 2)
        ctx.extra["scenarios_multi_page"] = multi
        if multi == 0 and pid != "C08":
            raise MachineryError("vacuity guard: no multi-page scenario generated")
        for r in recs[:3]:
            ctx.sample({"cfg": {k: r["c"][k] for k in pipeline.PRIMS}, "trace": [(e["k"], e["p"], e["r"], e["val"]) for e in r["ev"]][:30],
                        "outcome": r["outcome"]})
        ctx.rule = ("scenarios generated by TLC from spec/Pipeline.tla (exhaustive over the small configuration sets, -simulate over the large "
                    "ones), de-duplicated by configuration; non-trivial = " + {"C02": "at least one data row", "C05": "has group headings",
                    "C08": "at least two original columns"}.get(pid, "renders on two or more pages"))
        ctx.assumptions = ["independent RTF reader (harness/rtfreader.py)", "get_string_width as the ruler for line heights (C20)",
                           "TLC evaluates spec/PipeProps.tla clauses on every position of every recorded trace"]
        return ctx.finish()
    finally:
        work.close()


def _replay(ctx, work, spec, path):
    with open(path) as f:
        rp = json.load(f)
    if "multi" in rp["scenario"]:
        import multisec
        r = multisec.run_one({"id": 0, "secs": rp["scenario"]["multi"]["secs"], "opts": rp["scenario"]["multi"]["opts"]})
        print("outcome:", r["outcome"])
        if r["outcome"] != "ok":
            ctx.violation("multi-section encode failed: %s" % r["outcome"], {"scenario": rp["scenario"]})
        else:
            mv = family.validate(ctx, work, "MultiTrace", [{"id": 0, "c": r["c"], "ev": r["ev"]}], MULTI_JUDGE[ctx.pid], name="multi")
            for b in mv.get(0, []):
                ctx.violation("%s fails at table row %d" % (b["cl"], b["at"]), {"scenario": rp["scenario"]})
        ctx.note_case("replay", True); ctx.note_case("replay2", True); ctx.sample({"replayed": path}); ctx.rule = "replay of one recorded scenario"
        return ctx.finish()
    if "c" in rp["scenario"] and "kinds" in rp["scenario"]["c"] and "strat" not in rp["scenario"]["c"]:
        import check_figure, figure16
        sc = rp["scenario"]
        rec = figure16.run_one({"id": 0, "c": sc["c"], "seed": sc["seed"], "sizes": sc.get("sizes") or check_figure.SIZES["quick"]})
        rec["seed"], rec["sizes"] = sc["seed"], sc.get("sizes")
        check_figure._judge(ctx, work, [rec], ["C06_FigBreak", "C06_FigSubline", "C16_Captions"])
        ctx.note_case("replay", True); ctx.note_case("replay2", True); ctx.sample({"replayed": path}); ctx.rule = "replay of one recorded scenario"
        return ctx.finish()
    sc = {"id": 0, "c": rp["scenario"]["c"], "o": rp["scenario"].get("o") or {}, "pred": None}
    rec = pipeline.run_one(sc)
    print("outcome:", rec["outcome"])
    _judge_records(ctx, work, spec, [rec], {0: sc})
    ctx.note_case("replay", True)
    ctx.note_case("replay2", True)
    ctx.sample({"replayed": path})
    ctx.rule = "replay of one recorded scenario"
    return ctx.finish()


def space_size(k):
    """Number of terminal scenarios of spec/Pipeline.tla for a constants dict (mirrors Dim)."""
    total = 0
    flat = 1
    for name in ("PbHdrSet", "NrowSet", "HdrSet", "PlaceSet", "TitleSet", "SublineSet", "FontSet", "SizeSet", "PaperSet", "PgHFSet",
                 "PFSet", "PLSet", "BFSet", "BLSet", "GPosSet", "RelWSet"):
        flat *= len(k[name])
    flat *= sum((len(k.get("DupSet", {False})) if nd >= 2 else 1) for nd in k["NDataSet"])
    # (hdrtuple multiplies only explicit headers with own widths; it is used in simulated families only)
    # the shape of the user borders is a dimension only when a user border is set
    ush = len(k.get("UShapeSet", {"scalar"}))
    flat *= sum((ush if (a or b) else 1) for a in k["UTSet"] for b in k["UBSet"])
    # hdrw depends on hdr; pfoot/psrc on foot/src: handle by explicit sums
    nhdr_expl = len([h for h in k["HdrSet"] if h in ("explicit", "explicit2")])
    hdr_factor = (len(k["HdrSet"]) - nhdr_expl + nhdr_expl * len(k["HdrWSet"])) / len(k["HdrSet"])
    foot_factor = sum(1 if f == "none" else len(k["PlaceSet"]) for f in k["FootSet"])
    src_factor = sum(1 if f == "none" else len(k["PlaceSet"]) for f in k["SrcSet"])
    for st in k["Strategies"]:
        pb = st in ("pageby", "subpb")
        sb = st in ("subline", "subpb")
        for n in k["NSet"]:
            base = len(k["Heights"]) ** n
            if sb:
                base *= 2 ** max(0, n - 1)
            if pb:
                lev = sum((L + 1) ** max(0, n - 1) for L in k["LevelSet"])
                np_ = sum((len(k["PbRowSet"]) if v else 1) for v in k["NewPageSet"])
                ndiv = len(set(k["DivSet"]) - {"nullkey"})
                base *= lev * (ndiv * np_ + (1 if "nullkey" in k["DivSet"] else 0))
            elif sb and set(k["DivSet"]) & {"cycle", "collide"}:
                base *= len(set(k["DivSet"]) & {"none", "cycle", "collide"})
            total += base
    return int(total * flat * hdr_factor * foot_factor * src_factor)
