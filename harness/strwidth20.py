"""Driver for C20: measurement histories on the real get_string_width."""
from __future__ import annotations

import math
import random
from fractions import Fraction

from common import setup_path

setup_path()
SIZES = [4, 6, 6.5, 7, 7.75, 9, 10, 10.5, 10.75, 12, 18, 24, 36, 48]    # multiples of 0.25 pt; several share their integer part
DPIS = [36, 72, 96, 150, 300, 600]
FONT_NAMES = ["Times New Roman", "Times New Roman Greek", "Arial Greek", "Arial", "Helvetica", "Calibri", "Georgia", "Cambria", "Courier New", "Symbol"]
POOLS = {"ascii": [chr(c) for c in range(32, 127)], "latin1": [chr(c) for c in range(0xA1, 0x100) if c != 0xAD],
         "greek": [chr(c) for c in range(0x391, 0x3CA) if c != 0x3A2],
         "digit": list("0123456789"), "upper": [chr(c) for c in range(65, 91)], "lower": [chr(c) for c in range(97, 123)], "space": [" "],
         "punct": list(".,;:!?-'\"()/%+*="),
         # pairs that proportional fonts kern (a unit of two characters: appending it must not shrink the text either)
         "kern": ["AV", "VA", "To", "Ty", "Te", "LT", "WA", "Wa", "Ya", "Vo", "P.", "F.", "T.", "y.", "r,", "11"]}


def make_text(classes, rng):
    out = []
    for c in classes:
        if c == "rep":
            out.append(out[-1] if out else "a")
        else:
            out.append(rng.choice(POOLS[c]))
    return out


def _ulps(value, exact):
    """Distance between the float returned and the exact rational, in units in the last place."""
    if exact == 0:
        return 0 if value == 0 else 10**6
    u = math.ulp(float(exact))
    return int(abs(Fraction(value) - exact) / Fraction(u) + Fraction(1, 2))


def run_one(item):
    from rtflite import get_string_width
    h = item["h"]
    rng = random.Random(item["seed"])
    font, size = h["font"], SIZES[h["size"] - 1]
    name = FONT_NAMES[font - 1]
    units = list(item["text"]) if item.get("text") is not None else make_text(h["txt"], rng)
    text = "".join(units)
    rec = {"id": item["id"], "h": h, "text": text}
    c = {"font": font, "bad": h["bad"], "outcome": "ok", "adv64": 0, "w1": 0, "w2": 0, "s1": 2, "s2": 2, "ulp_in": 0, "ulp_mm": 0, "ulp_px": 0}
    ev = []
    if h["bad"] != "none":
        try:
            if h["bad"] == "font_number":
                get_string_width(text, font=rng.choice([0, 11, -1, 99]), font_size=size)
            elif h["bad"] == "font_name":
                get_string_width(text, font=rng.choice(["Comic Sans", "times new roman", "Arial ", ""]), font_size=size)
            else:
                get_string_width(text, font=font, font_size=size, unit=rng.choice(["cm", "pt", "IN", ""]))
            c["outcome"] = "ok"
        except ValueError:
            c["outcome"] = "ValueError"
        except Exception as ex:  # noqa
            c["outcome"] = "other:" + type(ex).__name__
        rec["c"], rec["ev"] = c, ev
        return rec
    try:
        for k in range(len(units) + 1):
            pre = "".join(units[:k])
            w = get_string_width(pre, font=font, font_size=size, unit="px")
            wn = get_string_width(pre, font=name, font_size=size, unit="px")
            w64 = w * 64
            ev.append({"n": len(pre), "w64": int(round(w64)), "w64name": int(round(wn * 64)), "exact": abs(w64 - round(w64)) < 1e-6})
        c["adv64"] = int(round(get_string_width("M", font=9, font_size=size, unit="px") * 64))
        dpi = DPIS[h["dpi"] - 1]
        px = get_string_width(text, font=font, font_size=size, unit="px", dpi=dpi)
        win = get_string_width(text, font=font, font_size=size, unit="in", dpi=dpi)
        wmm = get_string_width(text, font=font, font_size=size, unit="mm", dpi=dpi)
        fpx = Fraction(px)
        c["ulp_px"] = 0 if px * 64 == ev[-1]["w64"] or abs(px * 64 - ev[-1]["w64"]) < 1e-6 else 1
        c["ulp_in"] = _ulps(win, fpx / dpi)
        c["ulp_mm"] = _ulps(wmm, fpx / dpi * Fraction(254, 10))
        # default dpi / unit arguments agree with their documented defaults
        if get_string_width(text, font=font, font_size=size) != get_string_width(text, font=font, font_size=size, unit="in", dpi=72.0):
            c["ulp_in"] = 10**6
        s2 = item.get("size2") or rng.choice([s for s in SIZES if s != size])
        c["s1"], c["s2"] = int(round(size * 4)), int(round(s2 * 4))     # exact: sizes are multiples of a quarter point
        c["w1"] = ev[-1]["w64"]
        c["w2"] = int(round(get_string_width(text, font=font, font_size=s2, unit="px") * 64))
    except Exception as ex:  # noqa
        c["outcome"] = "other:" + type(ex).__name__ + ":" + str(ex)[:80]
    rec["c"], rec["ev"] = c, ev
    return rec
