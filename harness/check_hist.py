"""C14: encoding is a pure function of the document (histories)."""
from __future__ import annotations

import json

import family
import histrun
import tlc
from common import Ctx, MachineryError, pmap

# deviation flags of the tree under test
IMPL = dict(Shared=False, SetOnAllPaths=True, ClearOnError=True, CopyOnConstruct=True)
INTENDED = dict(Shared=True, SetOnAllPaths=True, ClearOnError=True, CopyOnConstruct=True)
DOCS = ["plain", "colA", "colB", "multi", "fig", "fail", "share2", "share3", "paged", "pagedfn", "pagedhdr", "multi13",
        "share1", "sharew2", "sharew3", "brdA", "brdB", "cyc", "pagedm1", "pagedm2", "pgshare", "pgfail", "subA", "subB", "sublpb", "grpA", "grpB"]
JUDGE = ["C14_Pure", "C14_Repeatable", "C14_DfUnchanged", "C14_Outcome", "C14_AllRan"]
PLAN = {"quick": dict(exhaustive=1, sim_len=4, sim_num=900, model_len=2),
        "thorough": dict(exhaustive=2, sim_len=4, sim_num=16000, model_len=2)}


def _hist_cfg(work, name, flags, maxhist, invariants):
    cfg = work.cfg(name, {"Threads": {"A"}, "MaxHist": maxhist, "ExactLen": False, "Progs": set(), **flags}, invariants=invariants, spec="HSpec")
    return cfg


def _judge(ctx, work, recs, fresh, known_sig):
    traces = []
    for r in recs:
        traces.append({"id": r["id"], "c": {"fresh": fresh, "failing": ["fail", "pgfail"], "nops": len(r["prog"])}, "ev": r["ev"]})
    verdicts = family.validate(ctx, work, "HistTrace", traces, JUDGE, name="hist")
    for r in recs:
        by = {}
        for b in verdicts.get(r["id"], []):
            by.setdefault(b["cl"], []).append(b["at"])
        for cl, ats in by.items():
            for at in sorted(ats):
                e = r["ev"][at - 1] if at <= len(r["ev"]) else None
                fid = known_sig(cl, r, at)
                if fid:
                    ctx.known_finding(fid["id"], fid["text"])
                    continue
                ctx.violation("%s fails at operation %d (%s) of history %s" % (cl, at, json.dumps(e), json.dumps(r["prog"])),
                              {"clause": cl, "at": at, "scenario": {"prog": r["prog"]}, "results": r["ev"], "fresh": fresh})
                break


def run(pid, tier, seed, replay=None):
    ctx = Ctx(pid, tier, seed)
    work = family.Work()
    plan = PLAN[tier]
    try:
        fresh = {}
        for d in DOCS:
            if d not in ("fail", "pgfail"):
                e = histrun.fresh_digest(d)
                if e["outcome"] != "ok":
                    raise MachineryError("fresh encode of pool document %s failed: %s" % (d, e))
                fresh[d] = e["digest"]
        fresh["fail"] = ""
        fresh["pgfail"] = ""

        def known_sig(cl, r, at):
            for f in ctx.known:
                if f.get("clause") != cl:
                    continue
                if f.get("applies") == "shared_body_other_column_count":
                    e = r["ev"][at - 1]
                    docs_before = [op[1] for op in r["prog"][:at]]
                    if e["doc"] in ("share2", "share3") and ("share2" in docs_before and "share3" in docs_before):
                        return f
            return None

        if replay:
            rp = json.load(open(replay))
            rec = histrun.run_history({"id": 0, "prog": rp["scenario"]["prog"]})
            if rec["ev"] is None:
                raise MachineryError("history child hung")
            _judge(ctx, work, [rec], fresh, known_sig)
            ctx.note_case("a", True); ctx.note_case("b", True); ctx.sample({"replayed": replay}); ctx.rule = "replay"
            return ctx.finish()

        # MODEL: all histories up to model_len, intended and as-implemented design
        cfg = _hist_cfg(work, "h_int.cfg", INTENDED, plan["model_len"], ["TypeOK", "HIsolation", "HCtxReleased"])
        res = tlc.run("ColorHist", cfg)
        ctx.add_tlc("model:ColorHist intended", res)
        if res.violated:
            raise MachineryError("intended history model violates %s\n%s" % (res.violated, res.counterexample[:1500]))
        if IMPL != INTENDED:
            cfg = _hist_cfg(work, "h_impl.cfg", IMPL, plan["model_len"], ["HIsolation"])
            res = tlc.run("ColorHist", cfg)
            ctx.add_tlc("model:ColorHist as-implemented", res)
            ctx.extra["as_implemented_model_violates"] = res.violated
        # GENERATE: all histories of length <= exhaustive, simulated ones of length sim_len
        items = []
        cfg = work.cfg("h_gen.cfg", {"Threads": {"A"}, "MaxHist": plan["exhaustive"], "ExactLen": False, "Progs": set(), **IMPL}, invariants=["HEmit"], spec="HSpec")
        res = tlc.run("ColorHist", cfg, coverage=False)
        ctx.add_tlc("generate:histories<=%d" % plan["exhaustive"], res)
        got = list(res.json_lines)
        ctx.extra["exhaustive_histories"] = len(got)
        for ln in range(plan["exhaustive"] + 1, plan["sim_len"] + 1):
            cfg = work.cfg("h_sim%d.cfg" % ln, {"Threads": {"A"}, "MaxHist": ln, "ExactLen": True, "Progs": set(), **IMPL}, invariants=["HEmit"], spec="HSpec")
            res = tlc.run("ColorHist", cfg, simulate="num=%d" % (plan["sim_num"] // (plan["sim_len"] - plan["exhaustive"])), depth=150,
                          seed=seed + ln, workers=1, coverage=False)
            ctx.add_tlc("generate:simulated histories of length %d" % ln, res)
            got += res.json_lines
        seen = set()
        for g in got:
            key = json.dumps(g["prog"])
            if key in seen:
                continue
            seen.add(key)
            items.append({"id": len(items), "prog": g["prog"], "pred": g["pure"]})
        if len(items) < 30:
            raise MachineryError("too few histories: %d" % len(items))
        recs = pmap(histrun.run_history, items, chunk=4)
        hung = [r for r in recs if r["ev"] is None or isinstance(r["ev"], dict)]
        if hung:
            # one retry; a hung child is a machinery problem, never a verdict
            again = [histrun.run_history({"id": r["id"], "prog": r["prog"]}, timeout=120) for r in hung]
            bad = [r for r in again if r["ev"] is None or isinstance(r["ev"], dict)]
            if bad:
                raise MachineryError("history child failed twice: %s %s" % (bad[0]["prog"], bad[0]["ev"]))
            m = {r["id"]: r for r in again}
            recs = [m.get(r["id"], r) for r in recs]
        _judge(ctx, work, recs, fresh, known_sig)
        nd = 0
        for r, it in zip(recs, items):
            ctx.note_case(json.dumps(r["prog"]), len(r["prog"]) >= 2)
            obs = [(e["outcome"] != "ok") or e["kind"] != "encode" or e["digest"] == fresh[e["doc"]] for e in r["ev"]]
            if obs != it["pred"]:
                nd += 1
                ctx.model_drift("C14 history %s: predicted purity %s, observed %s" % (json.dumps(r["prog"]), it["pred"], obs))
        ctx.extra["conformance"] = {"compared_with_model_prediction": len(recs), "drift": nd}
        ctx.extra["history_lengths"] = sorted({len(r["prog"]) for r in recs})
        for r in recs[:2] + recs[-2:]:
            ctx.sample({"history": r["prog"], "results": [(e["kind"], e["doc"], e["outcome"], e["digest"][:10]) for e in r["ev"]]})
        ctx.rule = ("operation histories generated by TLC from spec/ColorHist.tla over a pool of 9 documents (plain, coloured, multi-section, figure, "
                    "failing group_by, paginated, two sharing one RTFBody with different column counts): all histories up to the exhaustive length, "
                    "simulated ones of length 4; each executed in a forked child of an import-only parent and compared with the digest from a fresh interpreter; "
                    "non-trivial = at least one prior operation")
        ctx.assumptions = ["sha1 digests compared as strings by TLC", "fresh-interpreter output computed once per pool document in a subprocess"]
        return ctx.finish()
    finally:
        work.close()
