"""Controlled thread schedules for C15 (no source hooks: sys.settrace only).

run_gated     replays one TLC schedule of colour-context events: every thread stops at each
              call of set_document_context / get_rtf_color_index / clear_document_context and
              proceeds only when the schedule says it is its turn.
run_preempt   the quantifier's own schedule space: thread A is preempted at its k-th library
              function call, thread B runs to completion, A resumes.
Both record the colour-service events (thread, op, colour, returned index, palette) in the
order in which they complete."""
from __future__ import annotations

import hashlib
import os
import shutil
import sys
import tempfile
import threading
import time

from common import setup_path

setup_path()
import colordocs  # noqa: E402

CS_FUNCS = {"set_document_context": "set", "get_rtf_color_index": "lookup", "clear_document_context": "clear"}


def _digest(s):
    return hashlib.sha1(s.encode("utf-8")).hexdigest()


def _is_lib(fn):
    return "/rtflite/" in fn and "/verif/" not in fn


def _in_import(frame):
    """Is this call made while a module is being imported (a frame of importlib's machinery is on the stack)?  A thread
    parked there holds the module's import lock: another thread needing the module waits for it - that is Python's
    import protocol, not a schedule of library code, and only makes the run wait for a time-out."""
    f = frame
    for _ in range(60):
        if f is None:
            return False
        if f.f_code.co_filename.startswith("<frozen importlib"):
            return True
        f = f.f_back
    return False


def _depth(frame):
    n = 0
    while frame is not None:
        n += 1
        frame = frame.f_back
    return n


def _midx(name):
    return colordocs.COLORS[name][0] if name in colordocs.COLORS else -1


class Recorder:
    def __init__(self):
        self.lock = threading.Lock()
        self.events = []

    def color_return(self, tname, op, frame, ret):
        e = {"t": tname, "op": op, "colour": 0, "idx": 0, "pal": []}
        if op == "lookup":
            e["colour"] = _midx(frame.f_locals.get("color"))
            e["idx"] = ret if isinstance(ret, int) else -1
        elif op == "set":
            svc = frame.f_locals.get("self")
            pal = getattr(svc, "_current_document_colors", None) or []
            e["pal"] = sorted({_midx(c) for c in pal if c and c != "black"})
        with self.lock:
            self.events.append(e)


def _encode_thread(name, doc, results):
    try:
        text = doc.rtf_encode()
        results[name] = {"outcome": "ok", "digest": _digest(text)}
    except ValueError:
        results[name] = {"outcome": "ValueError", "digest": ""}
    except BaseException as ex:  # noqa
        results[name] = {"outcome": "error:" + type(ex).__name__ + ":" + str(ex)[:80], "digest": ""}


def build_docs(docnames, tmp):
    """Documents of one schedule.  Documents of a shared-object family (one caller-owned RTFPage / RTFBody / RTFSubline)
    that run in the same schedule are built on ONE such object, as a caller producing several outputs from one
    configuration would."""
    names = list(docnames.values())
    page = colordocs.new_shared_page() if sum(1 for d in names if d in colordocs.SHARED_PAGE) >= 2 else None
    sub = colordocs.new_shared_subline() if sum(1 for d in names if d in colordocs.SHARED_SUBLINE) >= 2 else None
    notes = colordocs.new_shared_notes() if sum(1 for d in names if d in colordocs.SHARED_NOTES) >= 2 else None
    body = None
    fams = {colordocs.SHARED_FAMILY[d] for d in names if d in colordocs.SHARED_FAMILY}
    if len(fams) == 1 and sum(1 for d in names if d in colordocs.SHARED_FAMILY) >= 2:
        body = colordocs.new_shared_body(fams.pop())
    return {t: colordocs.build_pool_doc(d, tmpdir=os.path.join(tmp, t), shared_page=page, shared_subline=sub, shared_body=body, shared_notes=notes)
            for t, d in docnames.items()}


WARM_N = 200


def warm_up():
    """Saturate the process: one document whose cells hold WARM_N distinct LaTeX strings (bounded memo tables are full,
    lazily built tables exist).  None of these strings occurs in a pool document."""
    import json
    import polars as pl
    import rtflite as rtf
    cmds = [c for c in json.load(open(os.path.join(os.path.dirname(os.path.abspath(__file__)), "latex682.json")))
            if c not in ("\\alpha", "\\beta", "\\leq", "\\gamma", "\\omega", "\\zeta", "\\Xi", "\\varpi", "\\wr", "\\xi")]
    cells = ["w%d %s z" % (i, cmds[i % len(cmds)]) for i in range(WARM_N)]
    rtf.RTFDocument(df=pl.DataFrame({"a": cells}), rtf_title=None).rtf_encode()


def run_gated(docnames, schedule, timeout=20.0):
    """docnames: {thread: pool doc}.  schedule: list of thread names (one entry per colour event)."""
    tmp = tempfile.mkdtemp(prefix="rtflite-verif-sched-")
    for t in docnames:
        os.makedirs(os.path.join(tmp, t), exist_ok=True)
    rec = Recorder()
    results = {}
    cond = threading.Condition()
    state = {"pos": 0, "busy": None, "desync": None}
    try:
        docs = build_docs(docnames, tmp)

        def make_tracer(tname):
            def local(frame, event, arg):
                if event == "return":
                    op = CS_FUNCS[frame.f_code.co_name]
                    rec.color_return(tname, op, frame, arg)
                    with cond:
                        state["busy"] = None
                        state["pos"] += 1
                        cond.notify_all()
                return local

            def tracer(frame, event, arg):
                if event != "call":
                    return None
                code = frame.f_code
                if code.co_name in CS_FUNCS and code.co_filename.endswith("color_service.py"):
                    t0 = time.time()
                    with cond:
                        while not (state["busy"] is None and state["pos"] < len(schedule) and schedule[state["pos"]] == tname):
                            if state["desync"] or time.time() - t0 > timeout:
                                state["desync"] = state["desync"] or ("thread %s waited for its turn at position %d" % (tname, state["pos"]))
                                cond.notify_all()
                                return None
                            if state["pos"] >= len(schedule):
                                # the schedule is exhausted: the code makes more colour calls than the model
                                state["desync"] = "extra colour event by %s after the schedule ended" % tname
                                cond.notify_all()
                                return None
                            cond.wait(0.05)
                        state["busy"] = tname
                    return local
                return None
            return tracer

        def body(tname):
            sys.settrace(make_tracer(tname))
            try:
                _encode_thread(tname, docs[tname], results)
            finally:
                sys.settrace(None)
                with cond:
                    cond.notify_all()

        ths = [threading.Thread(target=body, args=(t,)) for t in docnames]
        for th in ths:
            th.start()
        for th in ths:
            th.join(timeout + 10)
        return {"results": results, "events": rec.events, "desync": state["desync"],
                "consumed": state["pos"], "schedule_len": len(schedule)}
    finally:
        shutil.rmtree(tmp, ignore_errors=True)


def list_calls(docname, warm=False):
    """The library function calls of one encode, in order: [(file, function, firstlineno)]."""
    tmp = tempfile.mkdtemp(prefix="rtflite-verif-sched-")
    os.makedirs(os.path.join(tmp, "A"), exist_ok=True)
    calls = []
    try:
        if warm:
            warm_up()
        doc = colordocs.build_pool_doc(docname, tmpdir=os.path.join(tmp, "A"))

        def tracer(frame, event, arg):
            if event == "call" and _is_lib(frame.f_code.co_filename):
                calls.append((os.path.basename(frame.f_code.co_filename), frame.f_code.co_name, frame.f_code.co_firstlineno))
            return None
        sys.settrace(tracer)
        try:
            doc.rtf_encode()
        finally:
            sys.settrace(None)
    finally:
        shutil.rmtree(tmp, ignore_errors=True)
    return calls


def run_preempt(docA, docB, ks, docC=None, warm=False):
    """Thread A (docA) is preempted at its k-th library call (k in ks, increasing: several
    preemptions); at each preemption the next other thread runs to completion.  warm: the process is saturated
    first (warm_up)."""
    if warm:
        warm_up()
    tmp = tempfile.mkdtemp(prefix="rtflite-verif-sched-")
    names = {"A": docA, "B": docB}
    if docC:
        names["C"] = docC
    for t in names:
        os.makedirs(os.path.join(tmp, t), exist_ok=True)
    rec = Recorder()
    results = {}
    try:
        docs = build_docs(names, tmp)
        pending = [t for t in ("B", "C") if t in names]
        kset = list(ks)
        count = {"n": 0}

        def color_local(tname):
            def local(frame, event, arg):
                if event == "return":
                    rec.color_return(tname, CS_FUNCS[frame.f_code.co_name], frame, arg)
                return local
            return local

        def other_tracer(tname):
            def tracer(frame, event, arg):
                if event == "call" and frame.f_code.co_name in CS_FUNCS and frame.f_code.co_filename.endswith("color_service.py"):
                    return color_local(tname)
                return None
            return tracer

        def run_other(tname):
            def body():
                sys.settrace(other_tracer(tname))
                try:
                    _encode_thread(tname, docs[tname], results)
                finally:
                    sys.settrace(None)
            th = threading.Thread(target=body)
            th.start()
            th.join(120)

        occ = {}

        def tracerA(frame, event, arg):
            if event != "call":
                return None
            code = frame.f_code
            if _is_lib(code.co_filename):
                count["n"] += 1
                hit = False
                if kset and isinstance(kset[0], int):
                    hit = count["n"] == kset[0]
                elif kset:
                    # a preemption point given as [file, function, first line, occurrence]: independent of how many
                    # calls a cold or warm process makes before it
                    site = (os.path.basename(code.co_filename), code.co_name, code.co_firstlineno)
                    if site == tuple(kset[0][:3]):
                        occ[site] = occ.get(site, 0) + 1
                        hit = occ[site] == kset[0][3]
                if hit:
                    kset.pop(0)
                    if pending and not _in_import(frame):
                        run_other(pending.pop(0))
            if code.co_name in CS_FUNCS and code.co_filename.endswith("color_service.py"):
                return color_local("A")
            return None

        def bodyA():
            sys.settrace(tracerA)
            try:
                _encode_thread("A", docs["A"], results)
            finally:
                sys.settrace(None)
        th = threading.Thread(target=bodyA)
        th.start()
        th.join(180)
        for t in list(pending):          # preemption point never reached: run the others afterwards
            run_other(t)
        return {"results": results, "events": rec.events, "calls_A": count["n"], "ks": list(ks)}
    finally:
        shutil.rmtree(tmp, ignore_errors=True)


def run_nested(docA, docB, kA, kB, step=False):
    """Two preemptions: thread A stops at its kA-th library call; thread B starts and stops at its kB-th library call;
    A runs to completion; then B runs to completion.  (A window that one thread opens and closes inside a single
    call sequence - remove an entry, work, put it back - is only visible to another thread that runs while the first
    is parked inside it.)
    step=True: three switches - after B is parked, A runs until the function in which it was interrupted has returned and
    is parked again at its next library call, B runs to completion, then A does
    (A: ..kA | B: ..kB | A: steps out | B: rest | A: rest)."""
    tmp = tempfile.mkdtemp(prefix="rtflite-verif-sched-")
    names = {"A": docA, "B": docB}
    for t in names:
        os.makedirs(os.path.join(tmp, t), exist_ok=True)
    results = {}
    b_paused, b_resume, b_done = threading.Event(), threading.Event(), threading.Event()
    cnt = {"A": 0, "B": 0}
    try:
        docs = build_docs(names, tmp)

        occ = {"A": {}, "B": {}}

        def reached(t, frame, k):
            # k: a global call index, or [file, function, first line, occurrence]
            cnt[t] += 1
            if isinstance(k, int):
                return cnt[t] == k
            code = frame.f_code
            site = (os.path.basename(code.co_filename), code.co_name, code.co_firstlineno)
            if site != tuple(k[:3]):
                return False
            occ[t][site] = occ[t].get(site, 0) + 1
            return occ[t][site] == k[3]

        def tracerB(frame, event, arg):
            if event == "call" and _is_lib(frame.f_code.co_filename):
                if reached("B", frame, kB):
                    b_paused.set()
                    b_resume.wait(120)
            return None

        def bodyB():
            sys.settrace(tracerB)
            try:
                _encode_thread("B", docs["B"], results)
            finally:
                sys.settrace(None)
                b_done.set()
                b_paused.set()
        thB = threading.Thread(target=bodyB)

        started = {"v": False}

        def tracerA(frame, event, arg):
            if event == "call" and _is_lib(frame.f_code.co_filename):
                if started["v"] and step and not started.get("stepped"):
                    # "step out": A runs until the function in which it was interrupted has returned (the first library
                    # call made from a shallower frame), is parked again there, and B finishes first
                    if _depth(frame) < started["depth"]:
                        started["stepped"] = True
                        if not _in_import(frame):
                            b_resume.set()
                            b_done.wait(120)
                    return None
                if reached("A", frame, kA) and not started["v"]:
                    started["v"] = True
                    started["depth"] = _depth(frame)
                    thB.start()
                    b_paused.wait(120)       # B is parked at its kB-th call (or has finished)
            return None

        def bodyA():
            sys.settrace(tracerA)
            try:
                _encode_thread("A", docs["A"], results)
            finally:
                sys.settrace(None)
        thA = threading.Thread(target=bodyA)
        thA.start()
        thA.join(180)
        if not started["v"]:
            started["v"] = True
            thB.start()                       # A never reached its preemption point: run B afterwards
        b_resume.set()
        thB.join(180)
        return {"results": results, "events": [], "calls_A": cnt["A"], "calls_B": cnt["B"], "ks": [kA, kB]}
    finally:
        b_resume.set()
        shutil.rmtree(tmp, ignore_errors=True)


_FRESH_CALLS = r"""
import sys, json
sys.path.insert(0, %r); sys.path.insert(0, %r)
import sched
print(json.dumps(sched.list_calls(sys.argv[1])))
"""


def list_calls_fresh(docname):
    """list_calls in a fresh interpreter: the calls of the FIRST encode of a process (tables built on first use,
    registries filled, caches empty)."""
    import json
    import subprocess
    from common import REPO_SRC
    here = os.path.dirname(os.path.abspath(__file__))
    p = subprocess.run([sys.executable, "-c", _FRESH_CALLS % (REPO_SRC, here), docname], stdout=subprocess.PIPE, stderr=subprocess.PIPE,
                       text=True, timeout=300, env={**os.environ, "PYTHONHASHSEED": "0"})
    if p.returncode != 0:
        raise RuntimeError("fresh call listing failed: " + p.stderr[-1500:])
    return [tuple(x) for x in json.loads(p.stdout.strip().splitlines()[-1])]
