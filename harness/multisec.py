"""Driver for multi-section documents (C02, C07, C08 multi-section clauses)."""
from __future__ import annotations

import re

from common import setup_path

setup_path()
_CELL = re.compile(r"^s(\d+)r(\d+)c(\d+)")
_GRP = re.compile(r"^s(\d+)g(\d+)$")


def run_one(sc):
    import polars as pl
    import rtflite as rtf
    from rtfreader import parse, row_summary
    secs, opts = sc["secs"], sc["opts"]
    rec = {"id": sc["id"], "cfg": {"secs": secs, "opts": opts}, "ev": [], "outcome": "ok"}
    dfs, bodies, hdrs, exp = [], [], [], []
    mode = opts.get("body", "own")
    one_body = None if mode == "own" else (rtf.RTFBody() if mode == "shared" else rtf.RTFBody(col_rel_width=[1]))
    rot = opts.get("pb", "none") == "rot"
    for si, s in enumerate(secs, 1):
        m = s["m"]
        cols = ["c%d" % j for j in range(1, m + 1)] if rot else ["c%d_%d" % (si, j) for j in range(1, m + 1)]
        rows = [["s%dr%dc%d%s" % (si, r, j, "  " if (r + j) % 3 == 0 else "") for j in range(1, m + 1)] for r in range(1, s["n"] + 1)]
        data = {c: [rows[r][j] for r in range(s["n"])] for j, c in enumerate(cols)}
        jp = (si - 1) % m if (rot and m >= 2) else None
        relw = [j + 1 for j in range(m)] if rot else [1] * m
        if jp is not None:
            half = (s["n"] + 1) // 2
            data[cols[jp]] = ["s%dg%d" % (si, 1 if r < half else 2) for r in range(s["n"])]
        dfs.append(pl.DataFrame(data, schema={c: pl.Utf8 for c in cols}))
        if rot:
            bodies.append(rtf.RTFBody(col_rel_width=list(relw), **({"page_by": [cols[jp]]} if jp is not None else {})))
        else:
            bodies.append(rtf.RTFBody() if one_body is None else one_body)
        shown = [j for j in range(m) if j != jp]
        hdrs.append([rtf.RTFColumnHeader(text=["~H%d.%d~" % (si, j + 1) for j in shown])] if s["hdr"] == "explicit" else [None])
        exp.append({"n": s["n"], "m": len(shown), "rows": [[rows[r][j] for j in shown] for r in range(s["n"])], "relw": [relw[j] for j in shown]})
    kw = {"rtf_title": rtf.RTFTitle(text="~T~") if opts["title"] else None}
    if opts["foot"] != "none":
        kw["rtf_footnote"] = rtf.RTFFootnote(text="~FN~", as_table=(opts["foot"] == "table"))
    if opts["src"] != "none":
        kw["rtf_source"] = rtf.RTFSource(text="~SRC~", as_table=(opts["src"] == "table"))
    page = rtf.RTFPage(nrow=opts["nrow"], border_first="double", border_last="thick")
    try:
        doc = rtf.RTFDocument(df=dfs, rtf_body=bodies, rtf_column_header=hdrs, rtf_page=page, **kw)
        text = doc.rtf_encode()
    except Exception as ex:  # noqa
        rec["outcome"] = "error:" + type(ex).__name__ + ":" + str(ex)[:150]
        return rec
    d = parse(text)
    ev = []
    for pg in d.pages:
        for b in pg.blocks:
            if b.kind != "row":
                continue
            s = row_summary(b)
            t = s["texts"]
            common = {"tx": t, "cx": [x if x is not None else -1 for x in s["cellx"]], "top": s["top"], "bot": s["bottom"], "sec": 0, "r": 0}
            m = _CELL.match(t[0]) if t else None
            if t and t[0] == "~FN~":
                ev.append(dict(common, k="foot_t"))
            elif t and t[0] == "~SRC~":
                ev.append(dict(common, k="src_t"))
            elif t and t[0].startswith("~H"):
                ev.append(dict(common, k="colhdr", sec=int(t[0][2:].split(".")[0])))
            elif m:
                ev.append(dict(common, k="data", sec=int(m.group(1)), r=int(m.group(2))))
            elif t and len(t) == 1 and _GRP.match(t[0]):
                ev.append(dict(common, k="head", sec=int(_GRP.match(t[0]).group(1))))
            else:
                ev.append(dict(common, k="data"))
    rec["c"] = {"secs": exp, "W": int(round(page.col_width * 1440)), "pagefirst": "double", "pagelast": "thick"}
    rec["ev"] = ev
    rec["struct"] = d.struct
    if sc.get("pred") is not None:
        obs = [[e["sec"], e["r"]] for e in ev if e["k"] == "data"]
        if obs != [list(x) for x in sc["pred"]]:
            rec["drift"] = {"pred": sc["pred"][:10], "obs": obs[:10]}
    return rec
