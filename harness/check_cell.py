"""C09: cell formatting follows the data cell (spec/CellFormat.tla, spec/CellTrace.tla)."""
from __future__ import annotations

import json
import random

import cellformat
import family
from common import Ctx, MachineryError, pmap

ALL_ATTRS = set(cellformat.ATTRS)
STRATS = {"plain", "pbnp", "pbspan", "pbcol", "subline", "pb2span", "subpb"}
# deviation flag: does the code under test restart matrix attributes at every page?
IMPL_REBASE = False

GEN = {
    "quick": [dict(consts=dict(NSet={4}, MSet={2}, StratSet=STRATS, GPosSet={"first", "last"}, G2Set={"adjacent", "apart"}, CapSet={2}, ShapeSet={"scalar", "col", "matrix"},
                               AttrSet=ALL_ATTRS, SaltSet={1})),
              dict(consts=dict(NSet={1, 7, 16, 40}, MSet={1, 2, 4, 6}, StratSet=STRATS, GPosSet={"first", "middle", "last"}, G2Set={"adjacent", "apart"}, CapSet={1, 3, 4, 5, 7, 100},
                               ShapeSet={"scalar", "col", "matrix"}, AttrSet=ALL_ATTRS, SaltSet={0, 1, 2, 3, 4}), simulate=700)],
    "thorough": [dict(consts=dict(NSet={3, 5}, MSet={1, 3}, StratSet=STRATS, GPosSet={"first", "middle", "last"}, G2Set={"adjacent", "apart"}, CapSet={2, 3}, ShapeSet={"scalar", "col", "matrix"},
                                  AttrSet=ALL_ATTRS, SaltSet={0, 2})),
                 dict(consts=dict(NSet={1, 7, 16, 40}, MSet={1, 2, 4, 6}, StratSet=STRATS, GPosSet={"first", "middle", "last"}, G2Set={"adjacent", "apart"}, CapSet={1, 3, 4, 5, 7, 100},
                                  ShapeSet={"scalar", "col", "matrix"}, AttrSet=ALL_ATTRS, SaltSet={0, 1, 2, 3, 4}), simulate=12000)],
}
MODEL = {"quick": dict(NSet={4}, MSet={2}, StratSet=STRATS, GPosSet={"first", "last"}, G2Set={"adjacent", "apart"}, CapSet={2}, ShapeSet={"scalar", "col", "matrix"},
                       AttrSet={"text_font", "cell_height", "border_top"}, SaltSet={1}),
         "thorough": dict(NSet={3, 5}, MSet={1, 3}, StratSet=STRATS, GPosSet={"first", "middle", "last"}, G2Set={"adjacent", "apart"}, CapSet={2, 3},
                          ShapeSet={"scalar", "col", "matrix"}, AttrSet=ALL_ATTRS, SaltSet={0, 2})}
JUDGE = ["C09_Direct", "C09_Meta", "C09_Complete", "C09_Addressed"]


def _judge(ctx, work, recs, by_id):
    ok = [{"id": r["id"], "c": r["c"], "ev": [{k: e[k] for k in ("r", "j", "idx", "idx1", "skip")} for e in r["ev"]]}
          for r in recs if r["outcome"] == "ok"]
    verdicts = family.validate(ctx, work, "CellTrace", ok, JUDGE, name="cell")
    for r in recs:
        if r["outcome"] != "ok":
            ctx.violation("encode refused a scenario of the property's quantifier: %s" % r["outcome"], {"scenario": {"c": r["c"]}})
            continue
        bad = verdicts.get(r["id"], [])
        if not bad:
            continue
        by_cl = {}
        for b in bad:
            by_cl.setdefault(b["cl"], []).append(b["at"])
        for cl, ats in by_cl.items():
            at = min(ats)
            e = r["ev"][at - 1] if at <= len(r["ev"]) else None
            known = [f for f in ctx.known if f.get("clause") == cl and f.get("attrs") and r["c"]["attr"] in f["attrs"]]
            if known:
                for f in known:
                    ctx.known_finding(f["id"], f["text"])
                continue
            ctx.violation("%s fails for attribute %s (shape %s, strategy %s) at cell %s: read back %s" %
                          (cl, r["c"]["attr"], r["c"]["shape"], r["c"]["strat"], (e["r"], e["j"]) if e else "end", e["raw"] if e else ""),
                          {"clause": cl, "at": at, "scenario": {"c": r["c"]}, "cells": r["ev"][:60]})


BROADCAST = {"quick": dict(Forms={"scalar", "list", "tuple", "nested"}, KSet={1, 2, 3}, RSet={0, 1, 4}, CSet={1, 3}, MaxOps=2),
             "thorough": dict(Forms={"scalar", "list", "tuple", "nested"}, KSet={1, 2, 3}, RSet={0, 1, 2, 4}, CSet={1, 2, 3}, MaxOps=2)}
BC_INV = ["TypeOK", "ToListIsIloc", "Recycles", "UpdateIsLocal", "UpdateExpands"]


def _broadcast_family(ctx, work, tier):
    """spec/Broadcast.tla: the recycling algebra of BroadcastValue.  The laws are model-checked; every behaviour of the
    specification (shape x dimension x up to two calls) is then stepped through the real object with result and stored
    value compared after each call (spec -> code).  A difference is model drift: the property speaks about rendered
    cells, which CellTrace judges; this family localises a failure in the mechanism underneath."""
    import broadcast
    consts = BROADCAST[tier]
    res = family.model_check(ctx, work, "Broadcast", consts, BC_INV, [], "broadcast algebra")
    if res.violated:
        raise MachineryError("Broadcast model violates %s\n%s" % (res.violated, res.counterexample[:1200]))
    got = family.generate(ctx, work, "Broadcast", consts, "broadcast")
    items = [{"id": i, "sc": g["sc"], "ops": g["ops"], "hist": g["hist"]} for i, g in enumerate(got)]
    recs = pmap(broadcast.run_one, items, chunk=256)
    bad = [r for r in recs if r["diff"]]
    for r in bad[:20]:
        ctx.model_drift("BroadcastValue %s calls %s: step %d: %s" % (json.dumps(r["sc"], sort_keys=True), json.dumps(r["ops"]), r["diff"]["at"], r["diff"]["what"]))
    ctx.extra["broadcast_family"] = {"behaviours_replayed": len(recs), "drift": len(bad),
                                     "forms": sorted(consts["Forms"]), "laws_model_checked": BC_INV[1:]}


PARA = {"quick": dict(CompSet={"title", "subline", "pagehdr", "pageftr", "footnote", "source"}, LSet={1, 2, 3}, KSet={1, 2, 3}, FormSet={"scalar", "list", "tuple"},
                      SaltSet={0, 1, 2}),
        "thorough": dict(CompSet={"title", "subline", "pagehdr", "pageftr", "footnote", "source"}, LSet={1, 2, 3}, KSet={1, 2, 3, 4}, FormSet={"scalar", "list", "tuple"},
                         SaltSet={0, 1, 2, 3, 4, 5, 6, 7})}
PARA_INV = ["TypeOK", "RunFollowsLine", "ConstantPattern", "OnePar"]


def _para_family(ctx, work, tier):
    """spec/ParaFormat.tla: per-line attribute patterns of the paragraph-rendered text components (title, subline, page
    header / footer, paragraph footnote / source).  The laws are model-checked; every behaviour is replayed on the real
    components and the value read back for each run / paragraph is compared with the specification's (spec -> code).
    Not the subject of a listed property: a difference is model drift.  Control: the specification with the recorded
    deviation switched off (paragraph settings from the first line) must disagree with the code somewhere."""
    import paraformat
    consts = dict(PARA[tier]); consts.update(AttrSet=set(paraformat.VALUES), NV=paraformat.NV, ParLevelFromLastLine=True)
    res = family.model_check(ctx, work, "ParaFormat", consts, PARA_INV, [], "paragraph formatting")
    if res.violated:
        raise MachineryError("ParaFormat model violates %s\n%s" % (res.violated, res.counterexample[:1200]))
    res2 = family.model_check(ctx, work, "ParaFormat", consts, ["ParFromFirst"], [], "paragraph formatting, intended reading")
    got = family.generate(ctx, work, "ParaFormat", consts, "para")
    items = [{"id": i, "cfg": g["cfg"], "out": g["out"]} for i, g in enumerate(got)]
    recs = pmap(paraformat.run_one, items, chunk=128)
    bad = [r for r in recs if r["diff"]]
    for r in bad[:20]:
        ctx.model_drift("text component %s: %s" % (json.dumps(r["cfg"], sort_keys=True), r["diff"]))
    c2 = dict(consts); c2.update(ParLevelFromLastLine=False, SaltSet={0}, AttrSet={"text_justification", "text_space_before"})
    ctl = family.generate(ctx, work, "ParaFormat", c2, "para-control")
    crec = pmap(paraformat.run_one, [{"id": i, "cfg": g["cfg"], "out": g["out"]} for i, g in enumerate(ctl)], chunk=128)
    nctl = len([r for r in crec if r["diff"]])
    if nctl == 0:
        raise MachineryError("binding self-test: the ParaFormat specification with the deviation switched off was not told apart from the code")
    ctx.extra["paragraph_family"] = {"behaviours_replayed": len(recs), "drift": len(bad), "laws_model_checked": PARA_INV[1:],
                                     "intended_reading_refuted_on_model": res2.violated,
                                     "control_spec_rejected_on": nctl, "control_behaviours": len(crec)}


def run(pid, tier, seed, replay=None):
    ctx = Ctx(pid, tier, seed)
    work = family.Work()
    rng = random.Random(seed)
    try:
        if replay:
            rp = json.load(open(replay))
            rec = cellformat.run_one({"id": 0, "c": rp["scenario"]["c"]})
            _judge(ctx, work, [rec], None)
            ctx.note_case("a", True); ctx.note_case("b", True); ctx.sample({"replayed": replay}); ctx.rule = "replay"
            return ctx.finish()
        mc = dict(MODEL[tier]); mc["RebasePerPage"] = False
        res = family.model_check(ctx, work, "CellFormat", mc, ["C09_Direct", "C09_PageIndependent"], [], "intended")
        if res.violated:
            raise MachineryError("intended CellFormat model violates %s" % res.violated)
        if IMPL_REBASE:
            mc2 = dict(MODEL[tier]); mc2["RebasePerPage"] = True
            res = family.model_check(ctx, work, "CellFormat", mc2, ["C09_Direct"], [], "as-implemented")
            ctx.extra["as_implemented_model_violates"] = res.violated
        scs = []
        for gi, g in enumerate(GEN[tier]):
            consts = dict(g["consts"]); consts["RebasePerPage"] = IMPL_REBASE
            if g.get("simulate"):
                got = family.generate(ctx, work, "CellFormat", consts, "gen%d" % gi, simulate_num=g["simulate"],
                                      depth=40 + 8 * max(consts["NSet"]) * (max(consts["MSet"]) + 2), seed=seed + gi)
            else:
                got = family.generate(ctx, work, "CellFormat", consts, "gen%d" % gi)
                ctx.extra.setdefault("exhaustive_families_replayed_whole", []).append(len(got))
            seen = set()
            for s in got:
                key = json.dumps(s["cfg"], sort_keys=True)
                if key not in seen:
                    seen.add(key)
                    scs.append({"c": s["cfg"], "pred": s["out"]})
        for i, s in enumerate(scs):
            s["id"] = i
        if len(scs) < 50:
            raise MachineryError("too few scenarios: %d" % len(scs))
        recs = pmap(cellformat.run_one, scs, chunk=8)
        _judge(ctx, work, recs, None)
        nd = 0
        for r in recs:
            c = r["c"]
            ctx.note_case(json.dumps(c, sort_keys=True), c["shape"] != "scalar" and c["n"] > 1)
            if "drift" in r:
                nd += 1
                ctx.model_drift("C09 scenario %s: %s" % (json.dumps(c, sort_keys=True), r["drift"]))
        ctx.extra["conformance"] = {"compared_with_model_prediction": len(recs), "drift": nd}
        _broadcast_family(ctx, work, tier)
        _para_family(ctx, work, tier)
        ctx.extra["attributes_covered"] = sorted({r["c"]["attr"] for r in recs})
        if len(ctx.extra["attributes_covered"]) < len(ALL_ATTRS):
            raise MachineryError("vacuity guard: not every attribute was exercised")
        for r in recs[:3]:
            ctx.sample({"cfg": r["c"], "cells": r["ev"][:12]})
        ctx.rule = ("scenarios (attribute x shape x strategy x page split x removed column position) generated by TLC from spec/CellFormat.tla; "
                    "each encoded paginated and unpaginated; non-trivial = non-scalar shape on more than one row")
        ctx.assumptions = ["independent RTF reader", "values are drawn from a fixed list of legal values per attribute (harness/cellformat.py ATTRS)"]
        return ctx.finish()
    finally:
        work.close()
