"""Driver for C10: every Unicode character reaches the reader intact (through write_rtf)."""
from __future__ import annotations

import contextlib
import io
import os
import shutil
import tempfile

from common import setup_path

setup_path()
POSITIONS = ["body", "header", "title", "subline", "footnote_t", "footnote_p", "source_t", "source_p", "pageby", "pageby2", "sublineby", "pghdr", "pgftr"]


def is_testable(cp):
    return not (cp < 0x20 or 0x7F <= cp <= 0x9F or 0xD800 <= cp <= 0xDFFF or cp > 0x10FFFF)


def wrap(cp, variant):
    ch = chr(cp)
    return ["a" + ch + "b", ch, ch + "b", "a" + ch][variant % 4]


def _seg_event(text_in, cell):
    return {"cps": [ord(c) for c in text_in], "dec": None, "us": [u[0] for u in cell.uinfo], "fb": [u[1] for u in cell.uinfo],
            "uc": cell.uinfo[0][2] if cell.uinfo else 1}


def run_body_batch(batch):
    """batch = {"id", "segs": [str], "convert": bool}: one document, one body cell per segment, 8 columns."""
    import polars as pl
    import rtflite as rtf
    from rtfreader import parse
    segs = batch["segs"]
    ncol = 8
    rows = (len(segs) + ncol - 1) // ncol
    cells = ["%06d|%s" % (k, s) for k, s in enumerate(segs)] + ["pad"] * (rows * ncol - len(segs))
    data = {"c%d" % j: [cells[r * ncol + j] for r in range(rows)] for j in range(ncol)}
    df = pl.DataFrame(data, schema={k: pl.Utf8 for k in data})
    doc = rtf.RTFDocument(df=df, rtf_body=rtf.RTFBody(text_convert=batch["convert"]), rtf_page=rtf.RTFPage(nrow=rows + 10), rtf_title=None,
                          rtf_column_header=[])
    tmp = tempfile.mkdtemp(prefix="rtflite-verif-uni-")
    rec = {"id": batch["id"], "ev": [], "c": {"lexerrs": 0, "fallback_errs": 0, "found": 0, "expected": len(segs)}, "where": "body", "convert": batch["convert"]}
    try:
        path = os.path.join(tmp, "u.rtf")
        with contextlib.redirect_stdout(io.StringIO()):
            doc.write_rtf(path)
        data = open(path, "rb").read()
    except Exception as ex:  # noqa
        rec["error"] = type(ex).__name__ + ":" + str(ex)[:120]
        return rec
    finally:
        shutil.rmtree(tmp, ignore_errors=True)
    d = parse(data)
    found = {}
    for b in d.all_blocks():
        if b.kind != "row":
            continue
        for c in b.cells:
            t = c.text
            if len(t) >= 7 and t[6] == "|" and t[:6].isdigit():
                found[int(t[:6])] = c
    ev = []
    for k, s in enumerate(segs):
        c = found.get(k)
        if c is None:
            ev.append({"cps": [ord(x) for x in s], "dec": [-1], "us": [], "fb": [], "uc": 1})
            continue
        e = _seg_event(s, c)
        e["dec"] = [ord(x) for x in c.text[7:]]
        ev.append(e)
    rec["ev"] = ev
    rec["c"] = {"lexerrs": len(d.lexerrs), "fallback_errs": len(d.fallback_errs), "found": len(found), "expected": len(segs)}
    return rec


_KNOWN_TEXTS = {"", "grp", "plain1", "plain2", "plain3", "plain4", "h2", "first"}


def run_position(item):
    """item = {"id", "seg", "where", "convert"}: one document with the segment in one text position."""
    import polars as pl
    import rtflite as rtf
    from rtfreader import parse
    seg, where, conv = item["seg"], item["where"], item["convert"]
    bare = bool(item.get("bare"))       # the segment is the WHOLE text of its position (no markers around it)
    text = seg if bare else "~#~" + seg + "~$~"
    kw = {"text_convert": conv}
    df = pl.DataFrame({"g": ["grp", "grp"], "c": ["plain1", "plain2"]})
    args = dict(rtf_title=None, rtf_column_header=[])
    body_kw = {}
    if where == "body":
        df = pl.DataFrame({"g": ["grp", "grp"], "c": [text, "plain2"]})
        body_kw.update(kw)
    elif where == "header":
        args["rtf_column_header"] = [rtf.RTFColumnHeader(text=[text, "h2"], **kw)]
    elif where == "title":
        args["rtf_title"] = rtf.RTFTitle(text=text, **kw)
    elif where == "subline":
        args["rtf_subline"] = rtf.RTFSubline(text=text, **kw)
    elif where in ("footnote_t", "footnote_p"):
        args["rtf_footnote"] = rtf.RTFFootnote(text=text, as_table=(where == "footnote_t"), **kw)
    elif where in ("source_t", "source_p"):
        args["rtf_source"] = rtf.RTFSource(text=text, as_table=(where == "source_t"), **kw)
    elif where == "pageby":
        df = pl.DataFrame({"g": [text, text], "c": ["plain1", "plain2"]})
        body_kw.update(page_by=["g"], **kw)
    elif where == "pageby2":
        # the heading of a group that starts further down the page (rendered by the in-page boundary path)
        df = pl.DataFrame({"g": ["first", "first", text, text], "c": ["plain1", "plain2", "plain3", "plain4"]})
        body_kw.update(page_by=["g"], new_page=False, **kw)
    elif where == "sublineby":
        df = pl.DataFrame({"g": [text, text], "c": ["plain1", "plain2"]})
        body_kw.update(subline_by=["g"], **kw)
    elif where == "pghdr":
        args["rtf_page_header"] = rtf.RTFPageHeader(text=text, **kw)
    elif where == "pgftr":
        args["rtf_page_footer"] = rtf.RTFPageFooter(text=text, **kw)
    rec = {"id": item["id"], "ev": [], "c": {"lexerrs": 0, "fallback_errs": 0, "found": 0, "expected": 1}, "where": where, "convert": conv, "seg": seg}
    tmp = tempfile.mkdtemp(prefix="rtflite-verif-uni-")
    try:
        doc = rtf.RTFDocument(df=df, rtf_body=rtf.RTFBody(**body_kw), **args)
        path = os.path.join(tmp, "u.rtf")
        with contextlib.redirect_stdout(io.StringIO()):
            doc.write_rtf(path)
        data = open(path, "rb").read()
    except Exception as ex:  # noqa
        rec["error"] = type(ex).__name__ + ":" + str(ex)[:120]
        return rec
    finally:
        shutil.rmtree(tmp, ignore_errors=True)
    d = parse(data)
    blocks = list(d.all_blocks()) + [b for hb in d.headers for b in hb] + [b for fb in d.footers for b in fb]
    hit = None
    for b in blocks:
        for c in (b.cells if b.kind == "row" else [b] if b.kind == "para" else []):
            if (c.text.startswith("~#~") and not bare) or (bare and c.text not in _KNOWN_TEXTS):
                hit = c
                break
        if hit:
            break
    e = {"cps": [ord(x) for x in seg], "dec": [-1], "us": [], "fb": [], "uc": 1}
    if hit is not None:
        e = _seg_event(seg, hit)
        if bare:
            e["dec"] = [ord(x) for x in hit.text]
        else:
            t = hit.text[3:]
            e["dec"] = [ord(x) for x in (t[:-3] if t.endswith("~$~") else t + "?")]
    rec["ev"] = [e]
    rec["c"] = {"lexerrs": len(d.lexerrs), "fallback_errs": len(d.fallback_errs), "found": 1 if hit is not None else 0, "expected": 1}
    return rec
