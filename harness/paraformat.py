"""Replays behaviours of spec/ParaFormat.tla on the real text components: the component is built with the
specification's pattern for one attribute, the document is encoded, read back with the independent reader and the
resolved value of every run / of the paragraph is compared with the specification's `out`."""
from __future__ import annotations

from common import setup_path

setup_path()

VALUES = {
    "text_font": [1, 2, 3, 4, 5, 6, 7, 8],
    "text_font_size": [8, 9, 10.5, 12, 14, 7, 11, 16],
    "text_format": ["", "b", "i", "bi", "u", "s", "^", "_"],
    "text_justification": ["l", "c", "r", "j", "d", "l", "c", "r"],
    "text_indent_first": [0, 120, 360, 720, -360, 90, 45, 1440],
    "text_indent_left": [0, 120, 360, 720, 240, 90, 45, 1440],
    "text_indent_right": [0, 120, 360, 720, 240, 90, 45, 1440],
    "text_space_before": [15, 30, 60, 120, 0, 180, 45, 90],
    "text_space_after": [15, 30, 60, 120, 0, 180, 45, 90],
    "text_hyphenation": [True, False, True, False, True, False, True, False],
    "text_space": [1, 2, 3, 4, 1, 2, 3, 4],
}
NV = 8
COMP = {"title": ("RTFTitle", "rtf_title"), "subline": ("RTFSubline", "rtf_subline"), "pagehdr": ("RTFPageHeader", "rtf_page_header"),
        "pageftr": ("RTFPageFooter", "rtf_page_footer"), "footnote": ("RTFFootnote", "rtf_footnote"), "source": ("RTFSource", "rtf_source")}
FMT = {"b": "b", "i": "i", "u": "ul", "s": "strike", "^": "super", "_": "sub"}


def pattern(c):
    vals = VALUES[c["attr"]]
    pat = [vals[(3 * p + c["salt"]) % NV] for p in range(c["K"])]
    if c["form"] == "scalar":
        return pat[0]
    if c["form"] == "tuple":
        return tuple(pat)
    return pat


def _read_value(attr, run, ppr):
    if attr == "text_font":
        return None if run["f"] is None else run["f"] + 1
    if attr == "text_font_size":
        return None if run["fs"] is None else run["fs"] / 2
    if attr == "text_format":
        return "".join(sorted(k for k, v in FMT.items() if run.get(v)))
    if attr == "text_justification":
        return ppr.get("just")
    if attr in ("text_indent_first", "text_indent_left", "text_indent_right"):
        return ppr.get({"text_indent_first": "fi", "text_indent_left": "li", "text_indent_right": "ri"}[attr])
    if attr == "text_space_before":
        return ppr.get("sb")
    if attr == "text_space_after":
        return ppr.get("sa")
    if attr == "text_hyphenation":
        return bool(ppr.get("hyphpar", 0))
    if attr == "text_space":
        if "sl" not in ppr:
            return 1
        return ppr["sl"] / 240.0
    raise KeyError(attr)


def _same(attr, got, want):
    if attr == "text_format":
        return got == "".join(sorted(want))
    if attr == "text_font_size":
        return got is not None and round(got * 2) == round(want * 2)
    if attr == "text_space":
        return got is not None and abs(got - want) < 0.01
    return got == want


def run_one(item):
    import polars as pl
    import rtflite as rtf
    import rtfreader
    c = item["cfg"]
    rec = {"id": item["id"], "cfg": c, "diff": None}
    cls, slot = COMP[c["comp"]]
    lines = ["~L%d~" % k for k in range(c["L"])]
    kw = {"text": lines, c["attr"]: pattern(c)}
    if c["comp"] in ("footnote", "source"):
        kw["as_table"] = False
    try:
        comp = getattr(rtf, cls)(**kw)
        doc = rtf.RTFDocument(df=pl.DataFrame({"a": ["x", "y"], "b": ["1", "2"]}), **{slot: comp})
        out = doc.rtf_encode()
    except Exception as ex:  # noqa
        rec["diff"] = "raised %s: %s" % (type(ex).__name__, str(ex)[:120])
        return rec
    d = rtfreader.parse(out)
    if c["comp"] == "pagehdr":
        blocks = [b for h in d.headers for b in h]
    elif c["comp"] == "pageftr":
        blocks = [b for h in d.footers for b in h]
    else:
        blocks = [b for b in d.pages[0].blocks]
    paras = [b for b in blocks if getattr(b, "kind", "") == "para" and "~L0~" in b.text]
    if len(paras) != 1:
        rec["diff"] = "%d paragraphs hold the component's first line (specified: 1)" % len(paras)
        return rec
    p = paras[0]
    for k in range(c["L"]):
        if "~L%d~" % k not in p.text:
            rec["diff"] = "line %d is not in the component's paragraph" % k
            return rec
    vals = VALUES[c["attr"]]
    for o in item["out"]:
        want = vals[o["idx"]]
        if o["lvl"] == "par":
            got = _read_value(c["attr"], None, p.ppr)
            if not _same(c["attr"], got, want):
                rec["diff"] = "paragraph-level %s reads %r, specified %r (pattern entry of line %d)" % (c["attr"], got, want, o["line"])
                return rec
        else:
            if c["comp"] in ("footnote", "source"):
                tagged = [r for r in p.runs if "~L0~" in r["text"]]
            else:
                tagged = [r for r in p.runs if ("~L%d~" % o["line"]) in r["text"]]
            if not tagged:
                rec["diff"] = "no run holds line %d" % o["line"]
                return rec
            got = _read_value(c["attr"], tagged[0], p.ppr)
            if not _same(c["attr"], got, want):
                rec["diff"] = "run of line %d: %s reads %r, specified %r" % (o["line"], c["attr"], got, want)
                return rec
    return rec
