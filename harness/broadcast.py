"""Replays behaviours of spec/Broadcast.tla on the real BroadcastValue: the same calls, result and stored
value compared with the specification's after every step."""
from __future__ import annotations

import copy

from common import setup_path

setup_path()


def _cell(i, j):
    return 10 * i + j


def build_value(sc):
    f, rk, ck = sc["form"], sc["rk"], sc["ck"]
    if f == "scalar":
        return _cell(1, 1)
    if f == "list":
        return [_cell(1, j) for j in range(1, ck + 1)]
    if f == "tuple":
        return tuple(_cell(i, 1) for i in range(1, rk + 1))
    return [[_cell(i, j) for j in range(1, ck + 1)] for i in range(1, rk + 1)]


def run_one(item):
    from rtflite.attributes import BroadcastValue
    sc, ops, hist = item["sc"], item["ops"], item["hist"]
    rec = {"id": item["id"], "sc": sc, "ops": ops, "diff": None}
    try:
        bv = BroadcastValue(value=build_value(sc), dimension=(sc["R"], sc["C"]))
    except Exception as ex:  # noqa
        rec["diff"] = {"at": 0, "what": "construction raised %s: %s" % (type(ex).__name__, str(ex)[:100])}
        return rec
    for n, (op, h) in enumerate(zip(ops, hist), 1):
        name, i, j = op
        try:
            if name == "iloc":
                res = [[bv.iloc(i, j)]]
            elif name == "to_list":
                res = bv.to_list()
            elif name == "update_cell":
                res = bv.update_cell(i, j, 99)
            elif name == "update_row":
                res = bv.update_row(i, [90 + k for k in range(1, sc["C"] + 1)])
            else:
                res = bv.update_column(j, [80 + k for k in range(1, sc["R"] + 1)])
        except Exception as ex:  # noqa
            rec["diff"] = {"at": n, "what": "%s raised %s: %s" % (name, type(ex).__name__, str(ex)[:100])}
            return rec
        res = copy.deepcopy(res)
        val = copy.deepcopy(bv.value)
        want_res = [list(r) for r in h["res"]]
        want_val = [list(r) for r in h["val"]]
        if [list(r) for r in res] != want_res:
            rec["diff"] = {"at": n, "what": "%s%s returned %r, specified %r" % (name, (i, j), res, want_res)}
            return rec
        if [list(r) for r in val] != want_val:
            rec["diff"] = {"at": n, "what": "after %s%s the stored value is %r, specified %r" % (name, (i, j), val, want_val)}
            return rec
        if name == "to_list" and res:
            # the returned grid must be fresh: writing into it must not change the stored value or a second result
            probe = bv.to_list()
            probe[0][0] = -1
            if copy.deepcopy(bv.value) != val or bv.to_list()[0][0] == -1:
                rec["diff"] = {"at": n, "what": "to_list() result aliases the stored value"}
                return rec
    return rec
