"""Independent RTF reader (standard library only).

Written from the RTF 1.9 specification; imports nothing from rtflite.  It turns the
bytes of a document into (1) a token stream with lexical-error events, (2) a structural
event stream for the RtfStream TLA+ acceptor and (3) an abstract document:
preamble (fonts, colours, header/footer destinations, paper geometry) and pages of blocks
(Para / Row / Pict).

Lexical and structural problems are reported as *events* (``doc.lexerrs``,
``doc.struct``), never raised.
"""
from __future__ import annotations

import re

# --------------------------------------------------------------------------------------
# lexer
# --------------------------------------------------------------------------------------

_LETTERS = frozenset(b"abcdefghijklmnopqrstuvwxyzABCDEFGHIJKLMNOPQRSTUVWXYZ")
_DIGITS = frozenset(b"0123456789")
_HEX = frozenset(b"0123456789abcdefABCDEF")


def lex(data: bytes):
    """Return (tokens, lexerrs).

    token = (kind, a, b, pos):
      ("{",None,None) ("}",None,None) ("w",name,param|None) ("s",char,None)
      ("x",byteval,None) for \\'hh, ("t",bytes,None) for text
    """
    toks = []
    errs = []
    i = 0
    n = len(data)
    tstart = None

    def flush(j):
        nonlocal tstart
        if tstart is not None:
            toks.append(("t", data[tstart:j], None, tstart))
            tstart = None

    while i < n:
        c = data[i]
        if c == 0x7B:
            flush(i)
            toks.append(("{", None, None, i))
            i += 1
        elif c == 0x7D:
            flush(i)
            toks.append(("}", None, None, i))
            i += 1
        elif c == 0x5C:
            flush(i)
            if i + 1 >= n:
                errs.append((i, "backslash-at-eof"))
                i += 1
                continue
            d = data[i + 1]
            if d in _LETTERS:
                j = i + 1
                while j < n and data[j] in _LETTERS:
                    j += 1
                name = data[i + 1 : j].decode("ascii")
                param = None
                k = j
                if k < n and (data[k] == 0x2D or data[k] in _DIGITS):
                    if data[k] == 0x2D:
                        k += 1
                    ds = k
                    while k < n and data[k] in _DIGITS:
                        k += 1
                    if k == ds:  # "-" not followed by digit: not a parameter
                        k = j
                    else:
                        if k - ds > 10:
                            errs.append((i, "param-too-long:" + name))
                        param = int(data[j:k])
                if len(name) > 32:
                    errs.append((i, "name-too-long"))
                if k < n and data[k] == 0x20:
                    k += 1  # delimiter space is part of the control word
                if name == "u":
                    if param is None:
                        errs.append((i, "u-without-param"))
                    elif not (-32768 <= param <= 32767):
                        errs.append((i, "u-range:%d" % param))
                toks.append(("w", name, param, i))
                i = k
            elif d == 0x27:
                if i + 4 <= n and data[i + 2] in _HEX and data[i + 3] in _HEX:
                    toks.append(("x", int(data[i + 2 : i + 4], 16), None, i))
                    i += 4
                else:
                    errs.append((i, "bad-hex-escape"))
                    i += 2
            elif d in (0x0A, 0x0D):
                toks.append(("w", "par", None, i))  # \<newline> is \par
                i += 2
            else:
                toks.append(("s", chr(d), None, i))
                i += 2
        elif c in (0x0A, 0x0D):
            flush(i)
            i += 1
        else:
            if c < 0x20 and c != 0x09:
                errs.append((i, "control-char:%d" % c))
            if tstart is None:
                tstart = i
            i += 1
    flush(n)
    return toks, errs


# --------------------------------------------------------------------------------------
# abstract document
# --------------------------------------------------------------------------------------

BORDER_WORDS = {
    "brdrs": "single", "brdrdb": "double", "brdrth": "thick", "brdrdot": "dotted",
    "brdrdash": "dashed", "brdrdashsm": "small-dash", "brdrdashd": "dash-dotted",
    "brdrdashdd": "dash-dot-dotted", "brdrtriple": "triple", "brdrwavy": "wavy",
    "brdrwavydb": "double-wavy", "brdrengrave": "engraved", "brdremboss": "embossed",
    "brdrframe": "frame",
}
GEOM_WORDS = ("paperw", "paperh", "margl", "margr", "margt", "margb", "headery", "footery")
JUST = {"ql": "l", "qc": "c", "qr": "r", "qd": "d", "qj": "j"}
CHAR_TOGGLES = ("b", "i", "ul", "strike", "super", "sub")
PICT_KINDS = {"pngblip": "png", "jpegblip": "jpeg", "emfblip": "emf"}


def _cp1252(b: int) -> str:
    try:
        return bytes([b]).decode("cp1252")
    except UnicodeDecodeError:
        return chr(b)


class Para:
    kind = "para"

    def __init__(self):
        self.text = ""
        self.events = []   # ("c", ch) | ("ctl", name, param) | ("field", inst)
        self.runs = []     # dict(text=..., **charprops)
        self.ppr = {}
        self.uinfo = []    # [\\u argument, fallback characters consumed, uc in force]

    def __repr__(self):
        return "Para(%r)" % self.text


class Cell(Para):
    kind = "cell"


class Row:
    kind = "row"

    def __init__(self):
        self.tr = {}
        self.defs = []      # dict(cellx, borders={l,t,r,b:(style,width,color)}, valign, merge)
        self.cells = []     # Cell

    def __repr__(self):
        return "Row(%s | %s)" % ([d["cellx"] for d in self.defs], [c.text for c in self.cells])


class Pict:
    kind = "pict"

    def __init__(self):
        self.fmt = None
        self.props = {}
        self.data = b""
        self.hex_ok = True
        self.align = None

    def __repr__(self):
        return "Pict(%s,%s,%d bytes)" % (self.fmt, self.props, len(self.data))


class Page:
    def __init__(self):
        self.blocks = []
        self.geom = {}
        self.landscape = False


class Doc:
    def __init__(self):
        self.lexerrs = []
        self.struct = {}
        self.fonts = {}
        self.font_entries = []
        self.colors = None       # list of (r,g,b)|None ; None if no \colortbl
        self.n_colortbl = 0
        self.headers = []        # list of list[blocks]
        self.footers = []
        self.pages = [Page()]
        self.fallback_errs = []  # (\u value, got, expected)
        self.uvals = []
        self.events = []         # structural events for RtfStream

    # convenience
    def all_blocks(self):
        for p in self.pages:
            yield from p.blocks


_SPECIAL_CHARS = {"emdash": "\u2014", "endash": "\u2013", "emspace": "\u2003", "enspace": "\u2002", "qmspace": "\u2005", "bullet": "\u2022",
                  "lquote": "\u2018", "rquote": "\u2019", "ldblquote": "\u201c", "rdblquote": "\u201d"}
_DEST_SKIP = {"stylesheet", "info", "generator", "listtable", "listoverridetable", "themedata",
              "datastore", "latentstyles", "rsidtbl", "fldrslt"}


class _State:
    __slots__ = ("ch", "uc", "dest")

    def __init__(self, ch=None, uc=1, dest="body"):
        self.ch = dict(ch) if ch else {"f": None, "fs": None, "cf": None, "cb": None, "chcbpat": None,
                                       "b": 0, "i": 0, "ul": 0, "strike": 0, "super": 0, "sub": 0}
        self.uc = uc
        self.dest = dest

    def copy(self):
        return _State(self.ch, self.uc, self.dest)


def parse(data) -> Doc:
    if isinstance(data, str):
        data = data.encode("utf-8")
    doc = Doc()
    toks, errs = lex(data)
    doc.lexerrs = list(errs)
    ev = doc.events

    # ---- structural pass (depth, top-level groups, trailing garbage) ----
    depth = 0
    min_depth = 0
    top_groups = 0
    closed_at = None
    trailing = 0
    first = [t[:3] for t in toks[:2]]
    for t in toks:
        k = t[0]
        if closed_at is not None and depth == 0:
            if k == "t" and not t[1].strip():
                pass
            else:
                trailing += 1
        if k == "{":
            if depth == 0:
                top_groups += 1
            depth += 1
        elif k == "}":
            depth -= 1
            min_depth = min(min_depth, depth)
            if depth == 0 and closed_at is None:
                closed_at = t[3]
    doc.struct = {
        "final_depth": depth, "min_depth": min_depth, "top_groups": top_groups,
        "trailing": trailing,
        "signature": bool(len(first) == 2 and first[0][0] == "{" and first[1][:3] == ("w", "rtf", 1)),
        "leading": 0 if (toks and toks[0][0] == "{") else 1,
    }

    # ---- interpretation ----
    st = _State()
    stack = []
    # paragraph / table state
    ppr = {}
    para = None            # current Para/Cell being filled
    row = None             # current Row
    celldef = {"borders": {}, "valign": None, "merge": None}
    cur_border = None      # side whose style words we are reading
    sink = doc.pages[-1].blocks      # where finished blocks go
    sink_stack = []
    skip = 0               # pending fallback chars to skip after \u
    last_u = None
    hi_surr = None
    pict = None
    pict_hex = []
    fonttbl_num = None
    fonttbl_name = []
    color_cur = [None, None, None]
    field_inst = None
    pending_align = None

    def cur_para():
        nonlocal para
        if para is None:
            para = Para()
        return para

    def add_char(ch):
        nonlocal hi_surr
        p = cur_para()
        p.text += ch
        p.events.append(("c", ch))
        key = tuple(sorted(st.ch.items(), key=lambda kv: kv[0]))
        if p.runs and p.runs[-1]["_k"] == key:
            p.runs[-1]["text"] += ch
        else:
            r = dict(st.ch)
            r["text"] = ch
            r["_k"] = key
            p.runs.append(r)

    def end_fallback_check():
        nonlocal skip, last_u
        if skip > 0 and last_u is not None:
            doc.fallback_errs.append((last_u, st.uc - skip, st.uc))
        skip = 0
        last_u = None

    def finish_para(as_cell=False):
        nonlocal para
        p = para
        if p is None:
            p = Cell() if as_cell else Para()
        if as_cell and not isinstance(p, Cell):
            c = Cell()
            c.text, c.events, c.runs, c.uinfo = p.text, p.events, p.runs, p.uinfo
            p = c
        p.ppr = dict(ppr)
        for r in p.runs:
            r.pop("_k", None)
        para = None
        return p

    i = 0
    n = len(toks)
    while i < n:
        k, a, b, pos = toks[i]
        i += 1
        dest = st.dest
        if k == "{":
            end_fallback_check()
            stack.append(st)
            st = st.copy()
            ev.append(("O",))
            # look ahead for destination
            if i < n and toks[i][0] == "s" and toks[i][1] == "*":
                # ignorable destination: {\*\word ...}
                if i + 1 < n and toks[i + 1][0] == "w":
                    w = toks[i + 1][1]
                    if w == "fldinst":
                        st.dest = "fldinst"
                        field_inst = ""
                    else:
                        st.dest = "skip"
                    i += 2
                else:
                    i += 1
            continue
        if k == "}":
            end_fallback_check()
            ev.append(("C",))
            old = st
            if stack:
                st = stack.pop()
            # closing special destinations
            if old.dest == "pict" and st.dest != "pict":
                hx = "".join(pict_hex)
                hx2 = re.sub(r"\s+", "", hx)
                try:
                    pict.data = bytes.fromhex(hx2)
                except ValueError:
                    pict.hex_ok = False
                    pict.data = b""
                pict.align = ppr.get("just")
                sink.append(pict)
                pict = None
                pict_hex = []
            elif old.dest == "fonttbl_entry" and st.dest != "fonttbl_entry":
                name = "".join(fonttbl_name).strip()
                if name.endswith(";"):
                    name = name[:-1]
                if fonttbl_num is not None:
                    doc.fonts[fonttbl_num] = name
                    doc.font_entries.append((fonttbl_num, name))
                fonttbl_num = None
                fonttbl_name = []
            elif old.dest in ("header", "footer") and st.dest != old.dest:
                if para is not None and (para.text or para.events):
                    sink.append(finish_para())
                para = None
                sink = sink_stack.pop()
            elif old.dest == "fldinst" and st.dest != "fldinst":
                p = cur_para()
                p.events.append(("field", (field_inst or "").strip()))
                field_inst = None
            continue

        if dest == "skip":
            continue

        if k == "w":
            # -- \u and its fallback --
            if skip > 0 and a != "u":
                # a control word inside the fallback counts as one character
                skip -= 1
                if para is not None and para.uinfo:
                    para.uinfo[-1][1] += 1
                if skip == 0:
                    last_u = None
                continue
            if a == "u":
                end_fallback_check()
                if b is None:
                    continue
                v = b if b >= 0 else b + 65536
                doc.uvals.append(b)
                last_u = b
                skip = st.uc
                if dest in ("body", "header", "footer"):
                    cur_para().uinfo.append([b, 0, st.uc])
                if dest in ("body", "header", "footer"):
                    if 0xD800 <= v <= 0xDBFF:
                        hi_surr = v
                    elif 0xDC00 <= v <= 0xDFFF and hi_surr is not None:
                        cp = 0x10000 + ((hi_surr - 0xD800) << 10) + (v - 0xDC00)
                        hi_surr = None
                        add_char(chr(cp))
                    else:
                        hi_surr = None
                        add_char(chr(v) if not (0xD800 <= v <= 0xDFFF) else "�")
                if skip == 0:
                    last_u = None
                continue
            if a == "uc":
                st.uc = b if b is not None else 1
                continue
            # -- destinations --
            if a == "fonttbl":
                st.dest = "fonttbl"
                continue
            if dest == "fonttbl":
                if a == "f":
                    st.dest = "fonttbl_entry"
                    fonttbl_num = b
                continue
            if dest == "fonttbl_entry":
                if a == "f":
                    fonttbl_num = b
                continue
            if a == "colortbl":
                st.dest = "colortbl"
                doc.colors = []
                doc.n_colortbl += 1
                color_cur = [None, None, None]
                continue
            if dest == "colortbl":
                if a == "red":
                    color_cur[0] = b
                elif a == "green":
                    color_cur[1] = b
                elif a == "blue":
                    color_cur[2] = b
                continue
            if a in ("header", "footer"):
                st.dest = a
                blocks = []
                (doc.headers if a == "header" else doc.footers).append(blocks)
                sink_stack.append(sink)
                sink = blocks
                if para is not None and (para.text or para.events):
                    sink_stack[-1].append(finish_para())
                para = None
                continue
            if a == "pict":
                st.dest = "pict"
                pict = Pict()
                pict_hex = []
                continue
            if dest == "pict":
                if a in PICT_KINDS:
                    pict.fmt = PICT_KINDS[a]
                elif a in ("picw", "pich", "picwgoal", "pichgoal", "picscalex", "picscaley"):
                    pict.props[a] = b
                continue
            if a == "field":
                continue
            if a == "fldrslt":
                st.dest = "skip"
                continue
            if dest == "fldinst":
                continue
            if a in _DEST_SKIP:
                st.dest = "skip"
                continue
            if a in ("rtf", "ansi", "deff", "deflang", "ansicpg", "mac", "pc", "pca"):
                ev.append(("K", a, b if b is not None else 0))
                continue
            # -- document geometry --
            if a in GEOM_WORDS:
                doc.pages[-1].geom.setdefault(a, []).append(b)
                continue
            if a == "landscape":
                doc.pages[-1].landscape = True
                continue
            # -- page break --
            if a == "page":
                if dest == "body":
                    if para is not None and (para.text or para.events):
                        sink.append(finish_para())
                    para = None
                    doc.pages.append(Page())
                    sink = doc.pages[-1].blocks
                    ev.append(("P",))
                continue
            # -- table --
            if a == "trowd":
                row = Row()
                celldef = {"borders": {}, "valign": None, "merge": None}
                cur_border = None
                ev.append(("T",))
                continue
            if a in ("trgaph", "trleft", "trrh"):
                if row is not None:
                    row.tr[a] = b
                continue
            if a in ("trql", "trqc", "trqr"):
                if row is not None:
                    row.tr["just"] = a[3]
                continue
            if a in ("clbrdrl", "clbrdrt", "clbrdrr", "clbrdrb"):
                cur_border = a[-1]
                celldef["borders"][cur_border] = [None, None, None]
                continue
            if a in BORDER_WORDS:
                if cur_border is not None:
                    celldef["borders"][cur_border][0] = BORDER_WORDS[a]
                continue
            if a == "brdrw":
                if cur_border is not None:
                    celldef["borders"][cur_border][1] = b
                continue
            if a == "brdrcf":
                if cur_border is not None:
                    celldef["borders"][cur_border][2] = b
                continue
            if a in ("clvertalt", "clvertalc", "clvertalb"):
                celldef["valign"] = {"t": "top", "c": "center", "b": "bottom"}[a[-1]]
                continue
            if a in ("clvmgf", "clvmrg"):
                celldef["merge"] = a
                continue
            if a == "cellx":
                ev.append(("X", b if b is not None else 0))
                if row is not None:
                    d = {"cellx": b, "valign": celldef["valign"], "merge": celldef["merge"],
                         "borders": {s: tuple(v) for s, v in celldef["borders"].items()}}
                    row.defs.append(d)
                celldef = {"borders": {}, "valign": None, "merge": None}
                cur_border = None
                continue
            if a == "cell":
                ev.append(("E",))
                c = finish_para(as_cell=True)
                if row is None:
                    row = Row()
                    row.tr["_no_trowd"] = 1
                row.cells.append(c)
                continue
            if a == "row":
                ev.append(("R",))
                if row is not None:
                    sink.append(row)
                row = None
                continue
            # -- paragraph --
            if a == "pard":
                ppr = {}
                continue
            if a == "par":
                p = finish_para()
                if dest in ("body", "header", "footer"):
                    sink.append(p)
                continue
            if a == "intbl":
                ppr["intbl"] = 1
                continue
            if a in JUST:
                ppr["just"] = JUST[a]
                continue
            if a == "hyphpar":
                ppr["hyphpar"] = 1 if b is None else b
                continue
            if a in ("sb", "sa", "sl", "slmult", "fi", "li", "ri"):
                ppr[a] = b
                continue
            # -- character --
            if a in ("f", "fs", "cf", "cb", "chcbpat", "chshdng"):
                st.ch[a] = b
                continue
            if a == "plain":
                st = _State(None, st.uc, st.dest)
                continue
            if a in CHAR_TOGGLES:
                st.ch[a] = 0 if b == 0 else 1
                if a in ("super", "sub"):
                    cur_para().events.append(("ctl", a, b))
                continue
            if a == "nosupersub":
                st.ch["super"] = 0
                st.ch["sub"] = 0
                cur_para().events.append(("ctl", a, b))
                continue
            # control words that stand for one character (RTF 1.9, "special characters")
            if a in _SPECIAL_CHARS and dest in ("body", "header", "footer"):
                if skip > 0:
                    skip -= 1
                    if para is not None and para.uinfo:
                        para.uinfo[-1][1] += 1
                    if skip == 0:
                        last_u = None
                    continue
                add_char(_SPECIAL_CHARS[a])
                continue
            # anything else inside text: an in-text control (line, chpgn, totalpage, unknown)
            if dest in ("body", "header", "footer"):
                cur_para().events.append(("ctl", a, b))
            continue

        if k == "s":
            if skip > 0:
                skip -= 1
                if para is not None and para.uinfo:
                    para.uinfo[-1][1] += 1
                if skip == 0:
                    last_u = None
                continue
            if dest in ("body", "header", "footer"):
                if a in "\\{}":
                    add_char(a)
                elif a == "~":
                    add_char("\u00a0")      # non-breaking space
                elif a == "_":
                    add_char("\u2011")      # non-breaking hyphen
                elif a == "-":
                    add_char("\u00ad")      # optional hyphen
                elif a == "*":
                    pass
                else:
                    cur_para().events.append(("sym", a))
            continue

        if k == "x":
            if skip > 0:
                skip -= 1
                if para is not None and para.uinfo:
                    para.uinfo[-1][1] += 1
                if skip == 0:
                    last_u = None
                continue
            if dest in ("body", "header", "footer"):
                add_char(_cp1252(a))
            elif dest == "fonttbl_entry":
                fonttbl_name.append(_cp1252(a))
            continue

        if k == "t":
            bs = a
            if skip > 0:
                take = min(skip, len(bs))
                bs = bs[take:]
                skip -= take
                if para is not None and para.uinfo:
                    para.uinfo[-1][1] += take
                if skip == 0:
                    last_u = None
                if not bs:
                    continue
            if dest == "pict":
                pict_hex.append(bs.decode("latin-1"))
            elif dest == "fonttbl_entry":
                fonttbl_name.append(bs.decode("latin-1"))
            elif dest == "colortbl":
                for ch in bs:
                    if ch == 0x3B:
                        if color_cur == [None, None, None]:
                            doc.colors.append(None)
                        else:
                            doc.colors.append(tuple(x or 0 for x in color_cur))
                        color_cur = [None, None, None]
            elif dest == "fldinst":
                field_inst = (field_inst or "") + bs.decode("latin-1")
            elif dest in ("body", "header", "footer"):
                ev.append(("t",))
                for ch in bs:
                    add_char(chr(ch) if ch < 0x80 else _cp1252(ch))
            continue

    end_fallback_check()
    if para is not None and (para.text or para.events):
        sink.append(finish_para())
    return doc


# --------------------------------------------------------------------------------------
# helpers used by the drivers
# --------------------------------------------------------------------------------------

def row_summary(r: Row):
    return {
        "cellx": [d["cellx"] for d in r.defs],
        "texts": [c.text for c in r.cells],
        "top": [(d["borders"].get("t") or (None,))[0] or "" for d in r.defs],
        "bottom": [(d["borders"].get("b") or (None,))[0] or "" for d in r.defs],
        "left": [(d["borders"].get("l") or (None,))[0] or "" for d in r.defs],
        "right": [(d["borders"].get("r") or (None,))[0] or "" for d in r.defs],
    }


def strip_cell_text(t: str) -> str:
    """rtflite writes '<formatting> <text>': the first space after the formatting group
    opener is the control-word delimiter and is eaten by the lexer, so cell text is exact."""
    return t
