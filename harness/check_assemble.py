"""C17: assemble_rtf yields one well-formed document with every input in order."""
from __future__ import annotations

import json

import assemble
import family
from common import Ctx, MachineryError, pmap

# deviation flag of the tree under test
IMPL_FIGURE_COLOR_OWN_LINE = True
JUDGE = ["C17_WellFormed", "C17_Pages", "C17_Geometry", "C17_Single", "C17_Empty", "C17_Missing", "C17_Outcome"]
B = {False, True}
GEN = {
    "quick": [dict(name="upto2", consts=dict(MaxFiles=2, Kinds={"table", "figure"}, PageSet={1, 2}, ColorSet=B, HFSet=B, MissingSet={False}, LandSet={False}, TailSet={"none", "para"}, EnvSet={False, True}, PriorSet={"none", "failed", "other"})),
              dict(name="missing", consts=dict(MaxFiles=2, Kinds={"table"}, PageSet={1}, ColorSet={False}, HFSet={False}, MissingSet=B, LandSet={False}, TailSet={"none"}, EnvSet={False}, PriorSet={"none"})),
              dict(name="sim6", consts=dict(MaxFiles=6, Kinds={"table", "figure"}, PageSet={1, 2, 3}, ColorSet=B, HFSet=B, MissingSet={False}, LandSet=B, TailSet={"none", "para"}, EnvSet={False, True}, PriorSet={"none", "failed", "other"}), simulate=250)],
    "thorough": [dict(name="upto3", consts=dict(MaxFiles=3, Kinds={"table", "figure"}, PageSet={1, 2}, ColorSet=B, HFSet=B, MissingSet={False}, LandSet={False}, TailSet={"none"}, EnvSet={False}, PriorSet={"none"})),
                 dict(name="land2", consts=dict(MaxFiles=2, Kinds={"table", "figure"}, PageSet={1, 3}, ColorSet=B, HFSet={False}, MissingSet={False}, LandSet=B, TailSet={"none", "para"}, EnvSet={False, True}, PriorSet={"none", "failed", "other"})),
                 dict(name="missing", consts=dict(MaxFiles=3, Kinds={"table"}, PageSet={1}, ColorSet={False}, HFSet={False}, MissingSet=B, LandSet={False}, TailSet={"none"}, EnvSet={False}, PriorSet={"none"})),
                 dict(name="sim6", consts=dict(MaxFiles=6, Kinds={"table", "figure"}, PageSet={1, 2, 3}, ColorSet=B, HFSet=B, MissingSet={False}, LandSet=B, TailSet={"none", "para"}, EnvSet={False, True}, PriorSet={"none", "failed", "other"}), simulate=5000)],
}
MODEL = {"quick": dict(MaxFiles=2, Kinds={"table", "figure"}, PageSet={1, 2}, ColorSet=B, HFSet=B, MissingSet=B, LandSet={False}, TailSet={"none"}, EnvSet={False}, PriorSet={"none"}),
         "thorough": dict(MaxFiles=3, Kinds={"table", "figure"}, PageSet={1, 2}, ColorSet=B, HFSet=B, MissingSet={False}, LandSet={False}, TailSet={"none"}, EnvSet={False}, PriorSet={"none"})}
INV = ["Balanced", "PagesInOrder", "NewPageAndGeometry", "SingleUnchanged", "EmptyWritesNothing", "MissingRaises"]
KEEP = {"sig", "coloropen", "fontend_coloropen", "colorentry", "hdr", "ftr", "newpage"}


def _judge(ctx, work, recs):
    traces = [{"id": r["id"], "c": r["c"], "ev": r["ev"]} for r in recs]
    verdicts = family.validate(ctx, work, "AssembleTrace", traces, JUDGE, name="asm")
    for r in recs:
        by = {}
        for b in verdicts.get(r["id"], []):
            by.setdefault(b["cl"], []).append(b["at"])
        for cl, ats in by.items():
            known = [f for f in ctx.known if f.get("clause") == cl and f.get("applies") == "later_figure_with_colour"
                     and any(f2["kind"] == "figure" and f2["color"] for f2 in r["files"][1:])]
            if known:
                for f in known:
                    ctx.known_finding(f["id"], f["text"])
                continue
            ctx.violation("%s fails for inputs %s (page %d)" % (cl, json.dumps([[f["kind"], "colour" if f["color"] else "", "hf" if f["hf"] else "", f["pages"]] for f in r["files"]]), min(ats)),
                          {"clause": cl, "at": min(ats), "scenario": {"files": r["files"], "env": r.get("env") or {}}, "observed": {k: v for k, v in r["c"].items() if k != "inputs"},
                           "pages": r["ev"][:12]})


def run(pid, tier, seed, replay=None):
    ctx = Ctx(pid, tier, seed)
    work = family.Work()
    try:
        if replay:
            rp = json.load(open(replay))
            rec = assemble.run_one({"id": 0, "files": rp["scenario"]["files"], "env": rp["scenario"].get("env") or {}})
            _judge(ctx, work, [rec])
            ctx.note_case("a", True); ctx.note_case("b", True); ctx.sample({"replayed": replay}); ctx.rule = "replay"
            return ctx.finish()
        mc = dict(MODEL[tier]); mc["FigureColorOwnLine"] = True
        res = family.model_check(ctx, work, "Assemble", mc, INV, [], "intended")
        if res.violated:
            raise MachineryError("intended Assemble model violates %s\n%s" % (res.violated, res.counterexample[:1500]))
        if not IMPL_FIGURE_COLOR_OWN_LINE:
            mc2 = dict(MODEL[tier]); mc2["FigureColorOwnLine"] = False
            res = family.model_check(ctx, work, "Assemble", mc2, INV, [], "as-implemented")
            ctx.extra["as_implemented_model_violates"] = res.violated
        items = []
        seen = set()
        for gi, g in enumerate(GEN[tier]):
            consts = dict(g["consts"]); consts["FigureColorOwnLine"] = IMPL_FIGURE_COLOR_OWN_LINE
            if g.get("simulate"):
                got = family.generate(ctx, work, "Assemble", consts, g["name"], simulate_num=g["simulate"], depth=40, seed=seed + gi)
            else:
                got = family.generate(ctx, work, "Assemble", consts, g["name"])
                ctx.extra.setdefault("exhaustive_families_replayed_whole", {})[g["name"]] = len(got)
            for s in got:
                key = json.dumps([s["files"], s.get("env")], sort_keys=True)
                if key in seen:
                    continue
                seen.add(key)
                items.append({"id": len(items), "files": s["files"], "env": s.get("env") or {}, "pred": s})
        recs = pmap(assemble.run_one, items, chunk=4)
        _judge(ctx, work, recs)
        nd = 0
        for it, r in zip(items, recs):
            ctx.note_case(json.dumps(it["files"], sort_keys=True), len(it["files"]) >= 2)
            if it["pred"]["wrote"] != r["c"]["wrote"] or (it["pred"]["err"] == "FileNotFoundError") != (r["c"]["outcome"] == "FileNotFoundError"):
                nd += 1
                ctx.model_drift("C17 %s: model wrote=%s err=%s, observed wrote=%s outcome=%s" % (json.dumps(it["files"]), it["pred"]["wrote"], it["pred"]["err"], r["c"]["wrote"], r["c"]["outcome"]))
                continue
            if r["c"]["wrote"]:
                po = [c for c in it["pred"]["out"] if c in KEEP]
                oo = [c for c in r["outlines"] if c in KEEP]
                # several colour entries collapse to one class occurrence in the model
                def squash(xs):
                    out = []
                    for x in xs:
                        if x == "colorentry" and out and out[-1] == "colorentry":
                            continue
                        out.append(x)
                    return out
                if squash(po) != squash(oo):
                    nd += 1
                    ctx.model_drift("C17 %s: line layout predicted %s, observed %s" % (json.dumps(it["files"]), squash(po), squash(oo)))
        ctx.extra["conformance"] = {"compared_with_model_prediction": len(recs), "drift": nd}
        for r in recs[:2] + recs[-2:]:
            ctx.sample({"inputs": r["files"], "outcome": r["c"]["outcome"], "wrote": r["c"]["wrote"], "structure": r["c"]["obs"], "pages": [e["sig"][:60] for e in r["ev"]][:6]})
        ctx.rule = ("argument lists generated by TLC from spec/Assemble.tla: all lists of up to 2 (quick) / 3 (thorough) inputs over {table, figure} x colour x "
                    "header/footer x 1-2 pages, lists with missing files, simulated lists of up to 6 inputs incl. landscape; files written by write_rtf, "
                    "assembled, read back; non-trivial = two or more inputs")
        ctx.assumptions = ["independent RTF reader; a second \\\\colortbl mid-document is read as a redefinition", "page content compared by block signature (texts, picture digests)"]
        return ctx.finish()
    finally:
        work.close()
