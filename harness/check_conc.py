"""C15: concurrent encodes do not interfere (schedules)."""
from __future__ import annotations

import json
import random

import family
import histrun
import sched
import tlc
from common import Ctx, MachineryError, pmap

# Is the colour context of the tree under test one process-global slot (True) or per thread (False)?
IMPL_SHARED = False
FLAGS = dict(SetOnAllPaths=True, ClearOnError=True, CopyOnConstruct=True)
DOCS = ["plain", "colA", "colB", "multi", "fig", "paged", "pagedhdr", "grpA", "grpB", "texA", "texB", "pgshare", "pgmulti", "subA", "subB",
        "share2", "share3", "fnA", "fnB"]
# (single tables with different column counts first: per-document layout state must not leak between encoders)
# (a paginated document as the OTHER thread: wrong measurements made while A is parked change B's page breaks)
# (group_by on different columns: per-document arguments must not be remembered on a process-wide service)
# (documents built on ONE caller-owned RTFPage / RTFSubline / RTFBody: an encode must not edit, even temporarily, an
#  object another thread's document reads)
PAIRS = [("colA", "colB"), ("plain", "colB"), ("colB", "plain"), ("colB", "paged"), ("grpA", "grpB"), ("grpB", "grpA"), ("colB", "multi"),
         ("pgmulti", "pgshare"), ("pgshare", "pgmulti"), ("subA", "subB"), ("share2", "share3"), ("fnA", "fnB"),
         ("fig", "colA"), ("paged", "colB"), ("multi", "multi"), ("plain", "pagedhdr")]
PLAN = {"quick": dict(gated=260, sites_pairs=12, every_instance=False, multi=60, nested_pairs=1),
        "thorough": dict(gated=6000, sites_pairs=16, every_instance=True, multi=1500, nested_pairs=3)}
JUDGE = ["C14_Pure", "C14_Outcome", "C14_AllRan"]


def _run_gated(item):
    r = sched.run_gated(item["docs"], item["schedule"])
    r["id"] = item["id"]
    return r


def _run_nested(item):
    r = sched.run_nested(item["A"], item["B"], item["kA"], item["kB"], step=bool(item.get("step")))
    r["id"] = item["id"]
    return r


def _run_preempt_fresh(item):
    """The same as _run_preempt, in a forked child: the library is in its just-imported state (lazily built tables,
    caches and registries are still empty when thread A starts)."""
    r = histrun.fork_call(sched.run_preempt, (item["A"], item["B"], item["ks"], item.get("C")))
    if not isinstance(r, dict) or "results" not in r:
        r = {"results": {}, "events": [], "calls_A": 0, "ks": item["ks"], "child": r}
    r["id"] = item["id"]
    return r


def _list_calls_warm(doc):
    return sched.list_calls(doc, warm=True)


def _run_preempt(item):
    r = sched.run_preempt(item["A"], item["B"], item["ks"], item.get("C"), warm=bool(item.get("warm")))
    r["id"] = item["id"]
    return r


def _mc(work, name, threads, progs, shared, invariants, spec="Spec", module="ColorCtxMC"):
    cfg = work.cfg(name, {"Threads": set(threads), "Shared": shared, **FLAGS}, invariants=invariants, spec=spec)
    with open(cfg, "a") as f:
        f.write("CONSTANT Progs <- %s\n" % progs)
    return cfg


def run(pid, tier, seed, replay=None):
    ctx = Ctx(pid, tier, seed)
    work = family.Work()
    rng = random.Random(seed)
    plan = PLAN[tier]
    import time as _time
    _t = {"last": _time.time()}

    def phase(name):
        now = _time.time()
        ctx.extra.setdefault("phase_seconds", {})[name] = round(now - _t["last"], 1)
        _t["last"] = now
    try:
        alone = {}
        for d in DOCS:
            e = histrun.fresh_digest(d)
            if e["outcome"] != "ok":
                raise MachineryError("fresh encode of %s failed" % d)
            alone[d] = e["digest"]
        if replay:
            rp = json.load(open(replay))
            sc = rp["scenario"]
            if sc["mode"] == "gated":
                runs = [dict(_run_gated({"id": 0, "docs": sc["docs"], "schedule": sc["schedule"]}), docs=sc["docs"], mode="gated", sc=sc)]
            elif sc["mode"] == "nested":
                runs = [dict(_run_nested({"id": 0, "A": sc["docs"]["A"], "B": sc["docs"]["B"], "kA": sc["kA"], "kB": sc["kB"], "step": sc.get("step")}),
                             docs=sc["docs"], mode="nested", sc=sc)]
            else:
                fn = _run_preempt_fresh if sc.get("fresh") else _run_preempt
                runs = [dict(fn({"id": 0, "A": sc["docs"]["A"], "B": sc["docs"]["B"], "C": sc["docs"].get("C"), "ks": sc["ks"], "warm": sc.get("warm")}),
                             docs=sc["docs"], mode="preempt", sc=sc)]
            _judge(ctx, work, runs, alone)
            ctx.note_case("a", True); ctx.note_case("b", True); ctx.sample({"replayed": replay}); ctx.rule = "replay"
            return ctx.finish()
        phase("fresh digests")
        # 1. MODEL: all interleavings, two and three threads
        res = tlc.run("ColorCtxMC", _mc(work, "m2i.cfg", ["A", "B"], "Progs2", False, ["TypeOK", "Isolation", "Resolves", "CtxReleased"]))
        ctx.add_tlc("model: 2 threads, per-thread context (intended)", res)
        if res.violated:
            raise MachineryError("intended 2-thread model violates %s" % res.violated)
        res = tlc.run("ColorCtxMC", _mc(work, "m3i.cfg", ["A", "B", "C"], "Progs3", False, ["Isolation"]))
        ctx.add_tlc("model: 3 threads, per-thread context (intended)", res)
        if res.violated:
            raise MachineryError("intended 3-thread model violates %s" % res.violated)
        if IMPL_SHARED:
            res = tlc.run("ColorCtxMC", _mc(work, "m2s.cfg", ["A", "B"], "Progs2", True, ["Isolation"]))
            ctx.add_tlc("model: 2 threads, process-global context (as implemented)", res)
            ctx.extra["as_implemented_model_violates"] = res.violated
        phase("model checking")
        # 2a. schedules of colour events generated by TLC (all interleavings), replayed with the gate
        cfg = _mc(work, "sch.cfg", ["A", "B"], "Progs2", IMPL_SHARED, ["SEmit"], spec="SSpec")
        res = tlc.run("ColorSched", cfg, coverage=False)
        ctx.add_tlc("generate: all 2-thread schedules of colour events", res)
        scheds = res.json_lines
        ctx.extra["tlc_schedules_total"] = len(scheds)
        rng.shuffle(scheds)
        items = []
        for s in scheds[:plan["gated"]]:
            docs = {t: s["prog"][t][0][1] for t in s["prog"]}
            items.append({"id": len(items), "docs": docs, "schedule": s["sched"], "pred": s["res"]})
        gated = pmap(_run_gated, items, chunk=4)
        runs = []
        nd = 0
        for it, r in zip(items, gated):
            if r["desync"]:
                nd += 1
                ctx.model_drift("gated schedule %s on %s lost synchronisation: %s" % (it["schedule"], it["docs"], r["desync"]))
            else:
                # conformance: the indices each thread obtained are those the model predicts
                for t in it["docs"]:
                    pred_idx = it["pred"][t][0][2] if it["pred"][t] and it["pred"][t][0][0] == "ok" else None
                    obs_idx = [e["idx"] for e in r["events"] if e["t"] == t and e["op"] == "lookup"]
                    if pred_idx is not None and list(pred_idx) != obs_idx:
                        nd += 1
                        ctx.model_drift("gated schedule %s on %s: thread %s predicted indices %s, observed %s" % (it["schedule"], it["docs"], t, pred_idx, obs_idx))
                        break
            runs.append(dict(r, docs=it["docs"], mode="gated", sc={"mode": "gated", "docs": it["docs"], "schedule": it["schedule"]}))
        ctx.extra["conformance"] = {"gated_schedules_replayed": len(items), "drift": nd}
        phase("gated schedules")
        # 2b. one preemption at every library function-call boundary (the quantifier's schedule space)
        pitems = []
        site_total = 0
        for (a, b) in PAIRS[:plan["sites_pairs"]]:
            calls = sched.list_calls(a)
            seen = {}
            for k, site in enumerate(calls, 1):
                seen[site] = seen.get(site, 0) + 1
                if not plan["every_instance"] and seen[site] > 1:
                    continue
                # the preemption point is named by call site and occurrence, not by a global call index
                pitems.append({"id": len(pitems), "A": a, "B": b, "ks": [[site[0], site[1], site[2], seen[site]]]})
            site_total += len(set(calls))
            ctx.extra.setdefault("library_calls_per_encode", {})[a] = len(calls)
        ctx.extra["distinct_call_sites"] = site_total
        # 2b'. first use in the process: each run in a forked child of an import-only parent, thread A preempted at EVERY
        # library call (every instance), documents with LaTeX commands from both ends of the symbol table
        fitems = []
        # (two figure documents embedding the same image: what one thread has half-way prepared for an image must not be
        #  taken by the other for its own)
        for (a, b) in [("texA", "texB"), ("fig", "fig")] + ([("texB", "texA"), ("colA", "texB"), ("fnA", "fnB")] if tier == "thorough" else []):
            # every call instance of a site that is called up to 8 times; of a site called more often (a loop filling a
            # table, say) the first three, the middle and the last two instances - the run count stays bounded whatever the
            # library does on first use
            fcalls = sched.list_calls_fresh(a)
            total = {}
            for site in fcalls:
                total[site] = total.get(site, 0) + 1
            for site, cnt in total.items():
                occs = range(1, cnt + 1) if cnt <= 8 else sorted({1, 2, 3, cnt // 2, cnt - 1, cnt})
                for oc in occs:
                    fitems.append({"id": len(fitems), "A": a, "B": b, "ks": [[site[0], site[1], site[2], oc]]})
        phase("call listings")
        fresh_runs = pmap(_run_preempt_fresh, fitems, chunk=16)
        phase("fresh-process runs")
        bad_child = [r for r in fresh_runs if "child" in r]
        if len(bad_child) > len(fresh_runs) // 50:
            raise MachineryError("forked schedule runs failed: %d of %d (%r)" % (len(bad_child), len(fresh_runs), bad_child[0].get("child")))
        for it, r in zip(fitems, fresh_runs):
            if "child" in r:
                continue
            docs = {"A": it["A"], "B": it["B"]}
            runs.append(dict(r, docs=docs, mode="preempt", sc={"mode": "preempt", "docs": docs, "ks": it["ks"], "fresh": True}))
        ctx.extra["fresh_process_preemption_runs"] = len(fitems)
        # 2b''. a saturated process: before the schedule the process converted 200 distinct LaTeX strings (bounded memo tables
        # are full, so that entries are evicted while the threads run); thread A preempted at the first instance of every
        # call site of an encode made in that state
        wcalls = pmap(_list_calls_warm, ["texA"] * 8, procs=2, chunk=4)[0]
        wseen = set()
        nwarm = 0
        for site in wcalls:
            if site in wseen:
                continue
            wseen.add(site)
            pitems.append({"id": len(pitems), "A": "texA", "B": "texB", "ks": [[site[0], site[1], site[2], 1]], "warm": True})
            nwarm += 1
        ctx.extra["saturated_process_preemption_runs"] = nwarm
        # 2c. sampled schedules with two and three preemptions, three threads
        for _ in range(plan["multi"]):
            a, b, c = rng.choice(["colA", "colB", "paged"]), rng.choice(["colB", "multi", "fig"]), rng.choice(["colA", "multi", "plain"])
            n = 1000
            ks = sorted(rng.sample(range(1, n), rng.choice([2, 3])))
            pitems.append({"id": len(pitems), "A": a, "B": b, "C": c, "ks": ks})
        phase("warm listing")
        pre = pmap(_run_preempt, pitems, chunk=8)
        phase("preemption runs")
        for it, r in zip(pitems, pre):
            docs = {"A": it["A"], "B": it["B"]}
            if it.get("C"):
                docs["C"] = it["C"]
            runs.append(dict(r, docs=docs, mode="preempt", sc={"mode": "preempt", "docs": docs, "ks": it["ks"], "warm": bool(it.get("warm"))}))
        # 2d. two preemptions, nested: A parked at one of its call sites, B parked at one of its own, A finishes, B
        # finishes - every pair of distinct call sites (first instances)
        nitems = []
        for (a, b) in [("plain", "colB"), ("colB", "paged"), ("multi", "plain")][:plan["nested_pairs"]]:
            fa, fb = [], []
            for site in sched.list_calls(a):
                if site not in fa:
                    fa.append(site)
            for site in sched.list_calls(b):
                if site not in fb:
                    fb.append(site)
            for sa in fa:
                for sb in fb:
                    nitems.append({"id": len(nitems), "A": a, "B": b, "kA": [sa[0], sa[1], sa[2], 1], "kB": [sb[0], sb[1], sb[2], 1]})
        phase("nested listing")
        # 2d'. the same with thread A parked at EVERY call instance inside the colour service (the one process-wide object
        # both documents talk to) and B parked at the first instance of each of its call sites: a value one thread stores
        # in two steps can be split by the other thread's own two-step store only in such a nested schedule
        occ_a = {}
        inst_a = []
        for site in sched.list_calls("colA"):
            occ_a[site] = occ_a.get(site, 0) + 1
            if site[0] == "color_service.py":
                inst_a.append((site, occ_a[site]))
        # B: every call instance inside the colour service too (between two of its look-ups no function is called for the
        # first time), the first instance of every other site
        occ_b = {}
        inst_b = []
        for site in sched.list_calls("colB"):
            occ_b[site] = occ_b.get(site, 0) + 1
            if site[0] == "color_service.py" or occ_b[site] == 1:
                inst_b.append((site, occ_b[site]))
        nsvc = 0
        for (sa, oa) in inst_a:
            for (sb, ob) in inst_b:
                # (three switches: A .. | B .. | A steps out | B rest | A rest)
                nitems.append({"id": len(nitems), "A": "colA", "B": "colB", "kA": [sa[0], sa[1], sa[2], oa], "kB": [sb[0], sb[1], sb[2], ob], "step": True})
                nsvc += 1
        ctx.extra["nested_colour_service_runs"] = nsvc
        nest = pmap(_run_nested, nitems, chunk=32)
        phase("nested runs")
        for it, r in zip(nitems, nest):
            docs = {"A": it["A"], "B": it["B"]}
            runs.append(dict(r, docs=docs, mode="nested", sc={"mode": "nested", "docs": docs, "kA": it["kA"], "kB": it["kB"], "step": bool(it.get("step"))}))
        ctx.extra["nested_two_preemption_runs"] = len(nitems)
        for i, r in enumerate(runs):
            r["id"] = i
        _judge(ctx, work, runs, alone)
        phase("trace validation")
        for r in runs:
            ctx.note_case(json.dumps(r["sc"], sort_keys=True), True)
        for r in runs[:2] + runs[-2:]:
            ctx.sample({"schedule": r["sc"], "results": r["results"], "colour_events": [(e["t"], e["op"], e["colour"], e["idx"]) for e in r["events"]][:14]})
        ctx.extra["preemption_runs"] = len(pitems)
        ctx.rule = ("(a) interleavings of the colour-context steps of two threads enumerated by TLC (spec/ColorSched.tla) and replayed with a settrace gate; "
                    "(b) one preemption of thread A at %s library function-call boundary (sys.settrace) with thread B run to completion; "
                    "(c) sampled 2-3 preemptions with three threads; (d) nested two-preemption schedules for every pair of distinct call sites of two threads; every run is non-trivial (two or three concurrent encodes)"
                    % ("every" if plan["every_instance"] else "the first instance of every distinct"))
        ctx.assumptions = ["preemption is simulated at Python function-call boundaries (the GIL makes bytecode-level preemption inside a call equivalent for the shared state involved)",
                           "outputs compared by sha1 digest with the output of a fresh interpreter"]
        return ctx.finish()
    finally:
        work.close()


def _judge(ctx, work, runs, alone):
    traces = []
    ctraces = []
    for r in runs:
        ev = []
        for t in sorted(r["docs"]):
            res = r["results"].get(t) or {"outcome": "missing", "digest": ""}
            ev.append({"kind": "encode", "doc": r["docs"][t], "outcome": res["outcome"], "digest": res["digest"], "dfsame": True, "t": t})
        traces.append({"id": r["id"], "c": {"fresh": alone, "failing": [], "nops": len(r["docs"])}, "ev": ev})
        ctraces.append({"id": r["id"], "ev": r["events"]})
    verdicts = family.validate(ctx, work, "HistTrace", traces, JUDGE, name="conc")
    # conformance of the recorded colour events with ColorCtx (shared or per-thread context)
    conf = {}
    for k in range(0, len(ctraces), 1500):
        part = ctraces[k:k + 1500]
        tf = work.path("ctx-%d.json" % k)
        from common import write_json
        write_json(tf, part)
        cfg = work.cfg("ctx-%d.cfg" % k, {"Shared": IMPL_SHARED})
        res = tlc.run("CtxTrace", cfg, env={"TRACE_FILE": tf})
        ctx.add_tlc("conformance: colour events vs ColorCtx (Shared=%s)" % IMPL_SHARED, res)
        for j in res.json_lines:
            conf[j["id"]] = j
    ndrift = 0
    for r in runs:
        j = conf.get(r["id"])
        if j is None:
            raise MachineryError("no conformance verdict for run %s" % r["id"])
        if j["stuck"]:
            ndrift += 1
            ctx.model_drift("colour events of %s are not a behaviour of ColorCtx with Shared=%s: event %d %s"
                            % (json.dumps(r["sc"]), IMPL_SHARED, j["stuck"], r["events"][j["stuck"] - 1]))
    ctx.extra["colour_event_traces_conforming"] = len(runs) - ndrift
    for r, tr in zip(runs, traces):
        by = {}
        for b in verdicts.get(r["id"], []):
            by.setdefault(b["cl"], []).append(b["at"])
        for cl, ats in by.items():
            at = min(ats)
            e = tr["ev"][at - 1] if at <= len(tr["ev"]) else None
            known = [f for f in ctx.known if f.get("clause") == cl and f.get("applies") == "concurrent_colour_docs"]
            if known:
                for f in known:
                    ctx.known_finding(f["id"], f["text"])
                continue
            ctx.violation("%s: thread %s encoding %s returned a different string than when run alone (schedule %s)"
                          % (cl, e["t"] if e else "?", e["doc"] if e else "?", json.dumps(r["sc"])),
                          {"clause": cl, "scenario": r["sc"], "results": r["results"], "alone": alone, "colour_events": r["events"]})
